#!/usr/bin/env python3
"""Confirm and evaluate seeded property-breaking changes kept under /verif/seeded/<name>/.

  run_seeded.py verify <name>            apply patch in a scratch worktree, run the repository test-suite (must pass),
                                         run the demonstration with (must fail) and without (must pass) the patch
  run_seeded.py check <name> [C01,C08]   run the named checks (default: all) against the patched worktree via EINX_VERIF_REPO
  run_seeded.py all                      check every seeded change against its target property's check (+ all others with --full)

Scratch worktrees live under /tmp/seedrun and are removed afterwards. Nothing is ever applied to /repo here.
"""
import json
import os
import shutil
import subprocess
import sys
import time

HERE = os.path.dirname(os.path.dirname(os.path.abspath(__file__)))
SEEDED = os.path.join(HERE, "seeded")
PY = "/venv/bin/python"
ALL = [f"C{i:02d}" for i in range(1, 18)]


def sh(cmd, **kw):
    return subprocess.run(cmd, shell=isinstance(cmd, str), capture_output=True, text=True, **kw)


def worktree(name, patched=True):
    d = f"/tmp/seedrun/{name}{'' if patched else '-clean'}"
    if os.path.exists(d):
        sh(f"git -C /repo worktree remove --force {d}")
        shutil.rmtree(d, ignore_errors=True)
    os.makedirs("/tmp/seedrun", exist_ok=True)
    r = sh(f"git -C /repo worktree add -q --detach {d} HEAD")
    assert r.returncode == 0, r.stderr
    if patched:
        r = sh(f"git -C {d} apply {os.path.join(SEEDED, name, 'patch.diff')}")
        assert r.returncode == 0, f"patch does not apply: {r.stderr}"
    return d


def cleanup(d):
    sh(f"git -C /repo worktree remove --force {d}")
    shutil.rmtree(d, ignore_errors=True)
    sh("git -C /repo worktree prune")


def verify(name):
    meta_path = os.path.join(SEEDED, name, "meta.json")
    meta = json.load(open(meta_path))
    d = worktree(name)
    env = dict(os.environ, PYTHONPATH=d, PYTHONDONTWRITEBYTECODE="1")
    t0 = time.time()
    r = sh(f"cd {d} && {PY} -m pytest -q -p no:cacheprovider -x -n 8 --timeout=900 2>&1 | tail -3", env=env)
    tests = r.stdout.strip().splitlines()[-1] if r.stdout.strip() else r.stderr[-200:]
    demo = os.path.join(SEEDED, name, "demo.py")
    r1 = sh([PY, demo], env=env, timeout=600)
    clean = worktree(name, patched=False)
    env2 = dict(os.environ, PYTHONPATH=clean, PYTHONDONTWRITEBYTECODE="1")
    r2 = sh([PY, demo], env=env2, timeout=600)
    cleanup(d)
    cleanup(clean)
    meta["confirmed"] = {"tests_with_patch": tests, "demo_with_patch_rc": r1.returncode, "demo_without_patch_rc": r2.returncode, "demo_output_with_patch": (r1.stdout + r1.stderr)[-400:], "wall_s": round(time.time() - t0, 1)}
    ok = ("passed" in tests and "failed" not in tests) and r1.returncode != 0 and r2.returncode == 0
    meta["confirmed"]["ok"] = ok
    json.dump(meta, open(meta_path, "w"), indent=1)
    print(name, "CONFIRMED" if ok else "NOT CONFIRMED", meta["confirmed"])
    return ok


def check(name, checks, tier="quick", seed=0):
    meta_path = os.path.join(SEEDED, name, "meta.json")
    meta = json.load(open(meta_path))
    d = worktree(name)
    outdir = f"/tmp/seedrun/out-{name}"
    env = dict(os.environ, EINX_VERIF_REPO=d, VERIF_SEED=str(seed), VERIF_OUT=outdir)
    res = meta.setdefault("detection", {})
    for c in checks:
        t0 = time.time()
        r = sh(f"cd {HERE} && {PY} -m vf.check {c} --tier {tier}", env=env)
        lines = [l for l in r.stdout.splitlines() if l.startswith("  mech=")]
        mechs = sorted({l.split(" :: ")[0].strip() for l in lines})[:6]
        res[c] = {"rc": r.returncode, "caught": r.returncode == 1, "tier": tier, "seed": seed, "mechanisms": mechs, "wall_s": round(time.time() - t0, 1), "summary": (r.stdout.strip().splitlines() or [""])[-1][:200]}
        print(name, c, "CAUGHT" if r.returncode == 1 else f"missed(rc={r.returncode})", res[c]["summary"])
    cleanup(d)
    shutil.rmtree(outdir, ignore_errors=True)  # evidence/replays of the mutant run never touch /verif/evidence
    json.dump(meta, open(meta_path, "w"), indent=1)


def table():
    rows = []
    for name in sorted(os.listdir(SEEDED)):
        mp = os.path.join(SEEDED, name, "meta.json")
        if not os.path.exists(mp):
            continue
        m = json.load(open(mp))
        conf = m.get("confirmed", {})
        det = m.get("detection", {})
        caught = [c for c, r in sorted(det.items()) if r.get("caught")]
        missed = [c for c, r in sorted(det.items()) if not r.get("caught")]
        first = m["description_and_manifestation"].strip().splitlines()[0][:110]
        rows.append(f"| {name} | {m['property']} | {'yes' if conf.get('ok') else 'NO'} | {', '.join(caught) or '-'} | {', '.join(missed) or '-'} | {first} |")
    text = "# Seeded property-breaking changes\n\nEach directory holds patch.diff, demo.py and meta.json (what the change needs in order to manifest, confirmation, detection results).\n`python3 tools/run_seeded.py verify|check|all` re-runs the evaluation in scratch worktrees (never in /repo).\n\n| name | breaks | confirmed (tests pass, demo fails/passes) | caught by (quick tier, seed 0) | run but not caught | summary |\n|---|---|---|---|---|---|\n" + "\n".join(rows) + "\n"
    open(os.path.join(SEEDED, "README.md"), "w").write(text)
    print(text)


def main():
    cmd = sys.argv[1]
    if cmd == "table":
        return table()
    if cmd == "verify":
        verify(sys.argv[2])
    elif cmd == "check":
        name = sys.argv[2]
        checks = sys.argv[3].split(",") if len(sys.argv) > 3 else ALL
        check(name, checks)
    elif cmd == "all":
        full = "--full" in sys.argv
        for name in sorted(os.listdir(SEEDED)):
            if not os.path.exists(os.path.join(SEEDED, name, "meta.json")):
                continue
            meta = json.load(open(os.path.join(SEEDED, name, "meta.json")))
            targets = meta.get("check_with", [meta["property"]])
            check(name, ALL if full else targets)


if __name__ == "__main__":
    main()
