#!/bin/bash
# usage: import_mutant.sh C06 A "C06,C13"   -> seeded/C06-A/{patch.diff,demo.py,meta.json}
P=$1; L=$2; CW=${3:-$1}
D=/verif/seeded/$P-$L
mkdir -p $D
cp /tmp/mut/$P/_mutant/$L.diff $D/patch.diff
cp /tmp/mut/$P/_mutant/${L}_demo.py $D/demo.py
python3 - "$P" "$L" "$CW" <<'PY'
import json, sys
p, l, cw = sys.argv[1:4]
txt = open(f"/tmp/mut/{p}/_mutant/{l}.txt").read().strip()
meta = {"property": p, "name": f"{p}-{l}", "origin": "independent sub-agent given only the property text and a scratch worktree", "description_and_manifestation": txt, "check_with": cw.split(",")}
json.dump(meta, open(f"/verif/seeded/{p}-{l}/meta.json", "w"), indent=1)
PY
echo imported $D
