#!/bin/bash
# usage: import_mutant.sh C06 A C "C06,C13" [srcroot]  -> seeded/C06-C/{patch.diff,demo.py,meta.json} from <srcroot>/C06/_mutant/A.*
P=$1; L=$2; N=$3; CW=${4:-$1}; SRC=${5:-/tmp/mut2}
D=/verif/seeded/$P-$N
mkdir -p $D
cp $SRC/$P/_mutant/$L.diff $D/patch.diff
cp $SRC/$P/_mutant/${L}_demo.py $D/demo.py
python3 - "$P" "$L" "$N" "$CW" "$SRC" <<'PY'
import json, sys
p, l, n, cw, src = sys.argv[1:6]
txt = open(f"{src}/{p}/_mutant/{l}.txt").read().strip()
meta = {"property": p, "name": f"{p}-{n}", "origin": "independent sub-agent (round 2) given only the property text, the list of changes already tried, and a scratch worktree", "description_and_manifestation": txt, "check_with": cw.split(",")}
json.dump(meta, open(f"/verif/seeded/{p}-{n}/meta.json", "w"), indent=1)
PY
echo imported $D
