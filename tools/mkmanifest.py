#!/usr/bin/env python3
"""Regenerates /verif/MANIFEST.json from the table below (kept in one place so that the
manifest stays valid and consistent)."""
import json
import os

HERE = os.path.dirname(os.path.dirname(os.path.abspath(__file__)))
PY = "/venv/bin/python"

CHECKS = {
    "C01": dict(
        technique="runtime reference-model monitor: generated well-formed calls on the real einx vs. an independent loop-notation interpreter; argument sanitizer on",
        text="Exploration: thousands of generated calls per run over all value operations, description features and numpy backend selections; every returned tensor is compared element-wise with a deliberately naive for-loop interpreter of the notation. Held = no disagreement, no rejection of a well-formed call and no argument modification on what was generated (feature and operation counts are in the evidence).",
        note="Trusts the reference interpreter R (self-tested against numpy one-liners in vf.selftest) and the generator's well-formedness table (DESIGN.md Appendix A). Only numpy backends are reachable.",
        ref="3/C01",
    ),
    "C02": dict(
        technique="runtime reference-model monitor: solve_axes/solve_shapes/matches on generated systems vs. brute-force + propagation integer solver",
        text="Exploration: random expression systems (consistent, perturbed, under-determined, non-positive and >=2**31 sizes) are solved by the real einx and by an independent brute-force enumerator (soundness, ambiguity) and a propagation solver (completeness, big integers).",
        note="Trusts the brute-force bounds (positive integers bounded by the dimension an axis sits in) and the propagation reading of 'follows by substitution' (DESIGN.md C02).",
        ref="3/C02",
    ),
    "C09": dict(
        technique="runtime write sanitizer: before/after snapshots of every argument + read-only buffers, across layouts, cached/uncached calls and wrong-arity calls",
        text="Exploration: every argument of every generated call (all families, six memory layouts, cached and uncached, graph=True, solve_*/matches, mutable keyword containers, surplus tensors) is snapshotted (bytes, shape, dtype, strides, flags) before and after; read-only inputs turn write attempts into errors.",
        note="Trusts numpy's writeable flag and byte snapshots; the documented in-place target of *_at (and aliases of it) is exempt.",
        ref="3/C09",
    ),
    "C12": dict(
        technique="runtime monitor on the real parser: exhaustive token-sequence enumeration + fuzz, round-trip/invariance oracles",
        text="Exploration: every token sequence up to the bound and tens of thousands of random strings are fed to the real parse_op and to public operations; oracles are relational (re-print/re-parse, padding invariance) plus an exception-class and message-shape monitor. Held = no refuting event on the enumerated space (exhaustive to the bound) and the sampled remainder.",
        note="Trusts: harness-side structural dump (ignores ellipsis ids / unnamed-axis identity), the space-insensitive-gap rule stated in DESIGN.md C12.",
        ref="3/C12",
    ),
    "C14": dict(
        technique="runtime reference-model monitor: set_at/add_at/subtract_at results vs. per-element contribution multisets from an explicit loop over all index combinations",
        text="Exploration: generated update calls with forced duplicate addresses and axes missing from target/coordinates/updates; for every target element the reference loop yields the multiset of contributions; add/subtract must equal original +/- sum, set must hold one of the competing values, untouched elements keep their value, get_at reads back what set_at wrote; coordinate/update tensors are guarded by the write sanitizer.",
        note="Trusts the reference loop (R) and integer-valued data for exact sums; out-of-range/negative coordinates are not generated.",
        ref="3/C14",
    ),
}

NOT_YET = {}


def main():
    props = [json.loads(l) for l in open(os.path.join(HERE, "properties.jsonl"))]
    checks = []
    na = []
    for p in props:
        pid = p["id"]
        if pid in CHECKS:
            c = CHECKS[pid]
            checks.append({
                "property_id": pid,
                "quick_cmd": f"{PY} -m vf.check {pid} --tier quick",
                "thorough_cmd": f"{PY} -m vf.check {pid} --tier thorough",
                "evidence_file": f"/verif/evidence/{pid}.json",
                "replay_cmd_template": f"{PY} -m vf.replay {{path}}",
                "engine": "vf",
                "level_claimed": {"category": "exploration", "text": c["text"], "design_ref": c["ref"]},
                "level_note": c["note"],
                "technique": c["technique"],
            })
        else:
            na.append({"property_id": pid, "reason": NOT_YET.get(pid, "check not built yet in this round (runtime monitor designed in DESIGN.md section 3; not claimed until it runs clean)")})
    m = {
        "version": 1,
        "setup_cmd": f"{PY} -m vf.selftest",
        "hooks": {
            "guard": "EINX_VERIF",
            "enable": "no source hooks: all observation points are patched from outside at run time (module attributes, closure cells, sys.monitoring, audit hooks); checks import einx from /repo's working tree",
            "baseline_off_cmd": "cd /repo && /venv/bin/python -m pytest -ra -q -p no:cacheprovider --timeout=900 --continue-on-collection-errors",
            "source_commits": [],
            "add_only": True,
        },
        "engines": [{"name": "vf", "path": "/verif/vf", "serves_properties": sorted(CHECKS), "kind_free_text": "runtime monitoring: generated workloads on the real einx code, reference-model and relational oracles, controlled thread scheduler, write sanitizer"}],
        "checks": checks,
        "notes": "All checks: cwd=/verif, honour VERIF_SEED/VERIF_TIER, exit 0 held / 1 VIOLATION / 2 inconclusive. Known findings: /verif/known_findings.json.",
        "not_applicable": na,
    }
    with open(os.path.join(HERE, "MANIFEST.json"), "w") as f:
        json.dump(m, f, indent=1)
        f.write("\n")


if __name__ == "__main__":
    main()
