#!/usr/bin/env python3
"""Regenerates /verif/MANIFEST.json from the table below (kept in one place so that the
manifest stays valid and consistent)."""
import json
import os

HERE = os.path.dirname(os.path.dirname(os.path.abspath(__file__)))
PY = "/venv/bin/python"

CHECKS = {
    "C01": dict(
        technique="runtime reference-model monitor: generated well-formed calls on the real einx vs. an independent loop-notation interpreter; argument sanitizer on",
        text="Exploration: thousands of generated calls per run over all value operations, description features and numpy backend selections; every returned tensor is compared element-wise with a deliberately naive for-loop interpreter of the notation. Held = no disagreement, no rejection of a well-formed call and no argument modification on what was generated (feature and operation counts are in the evidence).",
        note="Trusts the reference interpreter R (self-tested against numpy one-liners in vf.selftest) and the generator's well-formedness table (DESIGN.md Appendix A). Only numpy backends are reachable.",
        ref="3/C01",
    ),
    "C02": dict(
        technique="runtime reference-model monitor: solve_axes/solve_shapes/matches on generated systems vs. brute-force + propagation integer solver",
        text="Exploration: random expression systems (consistent, perturbed, under-determined, non-positive and >=2**31 sizes) are solved by the real einx and by an independent brute-force enumerator (soundness, ambiguity) and a propagation solver (completeness, big integers).",
        note="Trusts the brute-force bounds (positive integers bounded by the dimension an axis sits in) and the propagation reading of 'follows by substitution' (DESIGN.md C02).",
        ref="3/C02",
    ),
    "C09": dict(
        technique="runtime write sanitizer: before/after snapshots of every argument + read-only buffers, across layouts, cached/uncached calls and wrong-arity calls",
        text="Exploration: every argument of every generated call (all families, six memory layouts, cached and uncached, graph=True, solve_*/matches, mutable keyword containers, surplus tensors) is snapshotted (bytes, shape, dtype, strides, flags) before and after; read-only inputs turn write attempts into errors.",
        note="Trusts numpy's writeable flag and byte snapshots; the documented in-place target of *_at (and aliases of it) is exempt.",
        ref="3/C09",
    ),
    "C12": dict(
        technique="runtime monitor on the real parser: exhaustive token-sequence enumeration + fuzz, round-trip/invariance oracles",
        text="Exploration: every token sequence up to the bound and tens of thousands of random strings are fed to the real parse_op and to public operations; oracles are relational (re-print/re-parse, padding invariance) plus an exception-class and message-shape monitor. Held = no refuting event on the enumerated space (exhaustive to the bound) and the sampled remainder.",
        note="Trusts: harness-side structural dump (ignores ellipsis ids / unnamed-axis identity), the space-insensitive-gap rule stated in DESIGN.md C12.",
        ref="3/C12",
    ),
    "C14": dict(
        technique="runtime reference-model monitor: set_at/add_at/subtract_at results vs. per-element contribution multisets from an explicit loop over all index combinations",
        text="Exploration: generated update calls with forced duplicate addresses and axes missing from target/coordinates/updates; for every target element the reference loop yields the multiset of contributions; add/subtract must equal original +/- sum, set must hold one of the competing values, untouched elements keep their value, get_at reads back what set_at wrote; coordinate/update tensors are guarded by the write sanitizer.",
        note="Trusts the reference loop (R) and integer-valued data for exact sums; out-of-range/negative coordinates are not generated.",
        ref="3/C14",
    ),
}

CHECKS.update({
    "C03": dict(
        technique="runtime exception-class monitor on all public entry points under fuzzed and corrupted calls; harness-side classifier (own bracket matcher, solver S) for ill-formed calls; invocation counter on compiled functions",
        text="Exploration: (i) tens of thousands of hostile calls (token soup, wrong types/counts, hostile keyword values) on every public entry point with an oracle-free monitor for internal exception classes; (ii) single-edit corruptions of valid generated calls which the harness proves ill-formed must raise a documented class, return nothing and never reach the compiled function.",
        note="Only corruptions the harness can prove ill-formed are judged by (ii); ValueError/TypeError accepted only when the edit touched argument counts/types.",
        ref="3/C03",
    ),
    "C04": dict(
        technique="runtime monitor with hooks on tracer.optimize / compiler.compile / exec audit events; independent IR interpreter as oracle; evaluation-count instrumentation on synthetic IR graphs",
        text="Exploration: for every compilation observed (generated calls of all families) the text of graph=True, the cache entry, the exec()'d code object and the running function are compared; exec(text) in a namespace holding only the listed constants is run against a node-by-node interpreter of the traced graph (values and argument side effects); thousands of synthetic IR graphs (in-place nodes, closures, multi-use values, dict/list outputs) are compiled by the real code generator and compared with the interpreter including per-object evaluation counts.",
        note="Trusts the interpreter vf/ref/graph.py (self-tested); synthetic graphs restricted to patterns with call-count independent meaning.",
        ref="3/C04",
    ),
    "C05": dict(
        technique="runtime monitor: IR interpreter on the graph before and after the real optimiser; enumerated transpose/reshape chains built with einx's own signature objects and pattern list",
        text="Exploration: pre/post optimisation graphs of generated calls plus every ordered pair of permutations up to rank 4/5, all pairs of factorisation shapes, random mixes with broadcast/concatenate/no-op members and shared intermediates are interpreted on identical inputs; pass counts are bounded and the result must be a fixed point.",
        note="Trusts the IR interpreter; inputs use distinct values and both distinct and equal axis lengths.",
        ref="3/C05",
    ),
    "C06": dict(
        technique="runtime history monitor: outcome of every call in long random histories vs. the same call in a pristine einx (side process that re-imports einx per query; audited by children forked from a zygote that never called einx)",
        text="Exploration: histories of 40-160 calls (valid, failing at parse/solve/semantic/run time, factories, adapters, confusable argument groups adjacent in both orders, with-blocks) are executed in one process; each outcome digest (exception class | dtype, shape, bytes | normalised graph text) must equal the pristine-process outcome; context stacks are checked after every call.",
        note="Pristine oracle = a process forked before any einx call that drops and re-imports all einx modules for every query (fresh module state, fresh user callables); 8 % of the queries are also answered by a fork-per-query child and the two must agree (else inconclusive). Graph text is compared up to variable naming. Same hash seed.",
        ref="3/C06",
    ),
    "C07": dict(
        technique="relational runtime monitor: short form vs documented long form of generated calls on identical data",
        text="Exploration: for each of 13 documented equivalences the harness derives the long form from its own AST and both forms are executed by the real einx; values, shapes, arity or exception class must agree.",
        note="Each rule is applied only inside the scope the documentation gives it (see vf/gen/sugar.py comments).",
        ref="3/C07",
    ),
    "C08": dict(
        technique="metamorphic runtime monitor: renamed / permuted / regrouped / inverted / composed calls vs. the original call",
        text="Exploration: six relations between two or three real executions (rename, input-permute, output-permute, group/ungroup, inversion, composition) over generated calls of all families and generated rearrangement triples.",
        note="Position relations only for explicit outputs; bracketed root dimensions keep their relative order; expressions with several concatenations are not permuted.",
        ref="3/C08",
    ),
    "C10": dict(
        technique="controlled thread scheduler on sys.monitoring yield points with cooperative lock shim; oracle = set of outcomes of all serial orders executed on the real code",
        text="Exploration: 2-3 thread programs of atomic API actions (calls, with-blocks, lookups, registrations, lazy imports, cold compilation) are run under thousands of seeded schedules (PCT-style preemption points, random switching; thorough: every single preemption point); the observed (outcome vector, final registry state) must be produced by some serial order of the same actions.",
        note="Yield points only in einx's Python code; programs restricted to those whose serial orders are failure-free; hung schedule = inconclusive.",
        ref="3/C10",
    ),
    "C11": dict(
        technique="runtime reference-model monitor: registry.get on fresh registries with synthetic backends vs. an executable precedence model; replay under permuted registration order",
        text="Exploration: random configurations (priorities with ties, eager/lazy registration, failing factories) and lookup histories are compared with a 50-line model of the documented precedence; every configuration is replayed under a second registration order; fixed checks on the real global registry.",
        note="Synthetic backends stand in for frameworks that are not installed.",
        ref="3/C11",
    ),
    "C13": dict(
        technique="runtime monitor with instrumented tensor factories (invocation log: count, shape argument, keywords, tracing-on-stack, caller) + plain-tensor value oracle + solver S",
        text="Exploration: generated calls with subsets of arguments replaced by factories of six signature classes, run cold / warm / other-factory / cold-again / graph=True / under-constrained / misbehaving.",
        note="Value oracle is the same call with the factory's return value; S decides under-determination.",
        ref="3/C13",
    ),
    "C15": dict(
        technique="runtime monitor with instrumented user functions wrapped by the numpy adapters; loop reference with the same Python function; argument/option recording incl. types",
        text="Exploration: reduce-style and element-wise user functions under G's grammars; recorded shapes, axis tuples and keyword-only options (value and type) are checked, results compared with the loop reference, misbehaving functions and option/axis name clashes must be rejected.",
        note="adapt_with_vmap unreachable (no vmap framework installed).",
        ref="3/C15",
    ),
    "C16": dict(
        technique="cross-process runtime monitor: outcome digests of a fixed corpus under 8 PYTHONHASHSEED values, repetitions and recompilations",
        text="Exploration: the same generated corpus is executed in worker processes with different hash seeds; per case the first call, a repetition, a recompilation after cache_clear and two graph=True texts are digested; digests must agree within and across processes.",
        note="Corpus generator checked to be hash-seed independent (else inconclusive).",
        ref="3/C16",
    ),
    "C17": dict(
        technique="runtime monitor on generated code: AST whitelist, literal-abstracted AST equality across scaled sizes, sys.monitoring CALL-event sequences of the generated function",
        text="Exploration: every generated call is compiled at base sizes and at two scaled size assignments with the same unit-axis pattern; structure must be identical up to integer literals and the dynamic sequence of backend calls must be equal.",
        note="Numeric axes in the description and coordinate-count axes are not scaled.",
        ref="3/C17",
    ),
})

NOT_YET = {}


def main():
    props = [json.loads(l) for l in open(os.path.join(HERE, "properties.jsonl"))]
    checks = []
    na = []
    for p in props:
        pid = p["id"]
        if pid in CHECKS:
            c = CHECKS[pid]
            checks.append({
                "property_id": pid,
                "quick_cmd": f"{PY} -m vf.check {pid} --tier quick",
                "thorough_cmd": f"{PY} -m vf.check {pid} --tier thorough",
                "evidence_file": f"/verif/evidence/{pid}.json",
                "replay_cmd_template": f"{PY} -m vf.replay {{path}}",
                "engine": "vf",
                "level_claimed": {"category": "exploration", "text": c["text"], "design_ref": c["ref"]},
                "level_note": c["note"],
                "technique": c["technique"],
            })
        else:
            na.append({"property_id": pid, "reason": NOT_YET.get(pid, "check not built yet in this round (runtime monitor designed in DESIGN.md section 3; not claimed until it runs clean)")})
    m = {
        "version": 1,
        "setup_cmd": f"{PY} -m vf.selftest",
        "hooks": {
            "guard": "EINX_VERIF",
            "enable": "no source hooks: all observation points are patched from outside at run time (module attributes, closure cells, sys.monitoring, audit hooks); checks import einx from /repo's working tree",
            "baseline_off_cmd": "cd /repo && /venv/bin/python -m pytest -ra -q -p no:cacheprovider --timeout=900 --continue-on-collection-errors",
            "source_commits": [],
            "add_only": True,
        },
        "engines": [{"name": "vf", "path": "/verif/vf", "serves_properties": sorted(CHECKS), "kind_free_text": "runtime monitoring: generated workloads on the real einx code, reference-model and relational oracles, controlled thread scheduler, write sanitizer"}],
        "checks": checks,
        "notes": "All checks: cwd=/verif, honour VERIF_SEED/VERIF_TIER, exit 0 held / 1 VIOLATION / 2 inconclusive. Known findings: /verif/known_findings.json.",
        "not_applicable": na,
    }
    with open(os.path.join(HERE, "MANIFEST.json"), "w") as f:
        json.dump(m, f, indent=1)
        f.write("\n")


if __name__ == "__main__":
    main()
