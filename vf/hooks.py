"""H - observation hooks installed from outside (no source changes in /repo).

einx's frontend looks up `tracer.optimize` and `backend.compiler.compile` (the module
einx._src.tracer.compiler.python) by attribute at call time, so assigning wrappers captures, for
every compilation: the traced graph before optimisation, after optimisation, the compiled
callable and the generated text. Every hook counts its own events so that 'saw nothing' is
detected.
"""
import collections
import sys

captured = []  # records of the current observation window
counters = collections.Counter()
_installed = False
_orig = {}
exec_events = []
COUNT_INVOCATIONS = [False]  # wrap compiled callables to count their invocations (C03/C06)


class Record:
    __slots__ = ("pre", "post", "compiled_graph", "fn", "code", "passes")

    def __init__(self):
        self.pre = self.post = self.compiled_graph = self.fn = self.code = None
        self.passes = None


def install():
    global _installed
    if _installed:
        return
    import einx._src.tracer as tracer
    import einx._src.tracer.compiler.python as pyc
    import einx._src.tracer.optimizer.optimizer as optmod

    _orig["optimize"] = tracer.optimize
    _orig["compile"] = pyc.compile
    _orig["Optimizer"] = optmod.Optimizer

    passes = [0]

    class CountingOptimizer(optmod.Optimizer):
        def __init__(self, optimizations):
            passes[0] += 1
            super().__init__(optimizations)

    def optimize(x, optimizations):
        passes[0] = 0
        optmod.Optimizer = CountingOptimizer
        try:
            y = _orig["optimize"](x, optimizations=optimizations)
        finally:
            optmod.Optimizer = _orig["Optimizer"]
        r = Record()
        r.pre, r.post, r.passes = x, y, passes[0]
        captured.append(r)
        counters["optimize"] += 1
        return y

    def compile(obj, return_code=False):
        res = _orig["compile"](obj, return_code=True)
        fn, code = res
        rec = None
        for r in reversed(captured):
            if r.post is obj:
                rec = r
                break
        if rec is None:
            rec = Record()
            captured.append(rec)
        rec.compiled_graph, rec.fn, rec.code = obj, fn, code
        counters["compile"] += 1
        if callable(fn) and COUNT_INVOCATIONS[0]:
            inner = fn

            def counted(*a, **k):
                counters["fn_invocations"] += 1
                return inner(*a, **k)

            fn = counted
        return (fn, code) if return_code else fn

    tracer.optimize = optimize
    pyc.compile = compile

    def audit(event, args):
        if event == "exec":
            co = args[0]
            try:
                if co.co_filename.startswith("<"):
                    f = sys._getframe(1)
                    if f.f_code.co_filename.endswith("compiler/python/__init__.py"):
                        exec_events.append(co)
                        counters["audit_exec"] += 1
            except Exception:
                pass

    sys.addaudithook(audit)
    _installed = True


def window():
    """Start a fresh observation window."""
    captured.clear()
    exec_events.clear()


def op_cache(fn):
    """The functools cache behind an einx API function (closure cell construct_graph_with_cache)."""
    d = dict(zip(fn.__code__.co_freevars, [c.cell_contents for c in fn.__closure__]))
    return d["construct_graph_with_cache"].__wrapped__
