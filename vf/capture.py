"""Run one generated case through the real einx with the hooks on and return the compilation record."""
import numpy as np

from . import hooks
from . import exec as X


def fresh_args(case):
    return [np.array(t, copy=True) if isinstance(t, np.ndarray) else t for t in case.tensors]


def capture(case, backend=None, fn=None, tensors=None):
    """-> (status, value, record or None). The description is compiled for the first time in this
    process unless it was seen before (then record is None: cache hit)."""
    hooks.install()
    hooks.window()
    t = fresh_args(case) if tensors is None else tensors
    status, val = X.einx_call(case, backend, t, fn=fn)
    rec = hooks.captured[-1] if hooks.captured else None
    return status, val, rec, t


def same_value(a, b, inexact=False):
    """Structural comparison of interpreter / compiled results (arrays, tuples, scalars)."""
    if isinstance(a, (tuple, list)) and isinstance(b, (tuple, list)):
        return len(a) == len(b) and all(same_value(x, y, inexact) for x, y in zip(a, b))
    if isinstance(a, dict) and isinstance(b, dict):
        return a.keys() == b.keys() and all(same_value(a[k], b[k], inexact) for k in a)
    try:
        aa, bb = np.asarray(a), np.asarray(b)
    except Exception:
        return a == b
    if aa.shape != bb.shape:
        return False
    if aa.dtype == object or bb.dtype == object:
        return bool(a == b)
    if inexact:
        return bool(np.allclose(aa, bb, rtol=1e-12, atol=0, equal_nan=True))
    return bool(np.array_equal(aa, bb, equal_nan=True)) if aa.dtype.kind in "fc" else bool(np.array_equal(aa, bb))
