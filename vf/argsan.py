"""A - argument sanitizer: deep snapshot of every argument before an einx call and comparison
after it; optional read-only mode (numpy's own write barrier)."""
import copy

import numpy as np


def snap(x):
    if isinstance(x, np.ndarray):
        return ("nd", x.shape, str(x.dtype), x.strides, x.flags.writeable, x.flags.c_contiguous, x.flags.f_contiguous, np.ascontiguousarray(x).tobytes())
    if isinstance(x, (list, tuple)):
        return (type(x).__name__,) + tuple(snap(i) for i in x)
    if isinstance(x, dict):
        return ("dict",) + tuple((k, snap(v)) for k, v in x.items())
    if callable(x):
        return ("callable", id(x))
    try:
        return ("val", type(x).__name__, repr(x))
    except Exception:
        return ("obj", id(x))


def diff(before, after):
    """-> None or a short description of what changed."""
    if before == after:
        return None
    if before[0] == "nd" and after[0] == "nd":
        names = ["kind", "shape", "dtype", "strides", "writeable", "c_contiguous", "f_contiguous", "bytes"]
        return ",".join(n for n, a, b in zip(names, before, after) if a != b)
    return "value"


class Guard:
    """with Guard(args, kwargs, exempt={0}) as g: ...; g.changed -> list of (position, what)"""

    def __init__(self, args, kwargs=None, exempt=()):
        self.args = args
        self.kwargs = kwargs or {}
        self.exempt = set(exempt)
        self.changed = []

    def __enter__(self):
        self.before = [snap(a) for a in self.args]
        self.kbefore = {k: snap(v) for k, v in self.kwargs.items()}
        return self

    def __exit__(self, *exc):
        exempt_ids = {id(self.args[i]) for i in self.exempt if i < len(self.args)}
        for i, a in enumerate(self.args):
            d = diff(self.before[i], snap(a))
            if i in self.exempt or id(a) in exempt_ids:
                # the documented in-place target: its contents may change, its shape / dtype / strides / flags may not
                d = ",".join(w for w in (d or "").split(",") if w and w != "bytes") or None
            if d:
                self.changed.append((i, d))
        for k, v in self.kwargs.items():
            d = diff(self.kbefore[k], snap(v))
            if d:
                self.changed.append((k, d))
        return False
