"""F - pristine-interpreter oracle. A zygote process is forked from the worker after einx and
the call pool exist but before any einx call was made; for every query it forks a child that
performs just that call and reports an outcome digest through a pipe."""
import json
import os
import select
import signal
import sys


class Zygote:
    def __init__(self, perform, timeout=60):
        """perform(query) -> digest (JSON-able); runs in a grandchild forked from the pristine zygote."""
        self.timeout = timeout
        qr, qw = os.pipe()
        ar, aw = os.pipe()
        pid = os.fork()
        if pid == 0:
            # ---- zygote
            os.close(qw)
            os.close(ar)
            fin = os.fdopen(qr, "r")
            fout = os.fdopen(aw, "w")
            import gc
            gc.collect()
            gc.freeze()  # keep the garbage collector from touching (and thereby copying) the inherited heap in the children
            gc.disable()
            try:
                for line in fin:
                    q = json.loads(line)
                    r, w = os.pipe()
                    cpid = os.fork()
                    if cpid == 0:
                        os.close(r)
                        try:
                            d = perform(q)
                            payload = json.dumps({"ok": d})
                        except BaseException as e:  # noqa
                            payload = json.dumps({"err": repr(e)[:300]})
                        with os.fdopen(w, "w") as f:
                            f.write(payload)
                        os._exit(0)
                    os.close(w)
                    ready, _, _ = select.select([r], [], [], timeout)
                    if ready:
                        with os.fdopen(r, "r") as f:
                            data = f.read()
                        os.waitpid(cpid, 0)
                    else:
                        os.kill(cpid, signal.SIGKILL)
                        os.waitpid(cpid, 0)
                        os.close(r)
                        data = json.dumps({"timeout": True})
                    fout.write((data or json.dumps({"err": "empty"})) + "\n")
                    fout.flush()
            finally:
                os._exit(0)
        # ---- parent
        os.close(qr)
        os.close(aw)
        self.pid = pid
        self.q = os.fdopen(qw, "w")
        self.a = os.fdopen(ar, "r")
        self.memo = {}

    def submit(self, query):
        """Start the pristine evaluation of `query` (runs concurrently with the caller); fetch with result()."""
        key = json.dumps(query, sort_keys=True)
        self._pending = key
        if key not in self.memo:
            self.q.write(key + "\n")
            self.q.flush()

    def result(self):
        key = self._pending
        if key not in self.memo:
            line = self.a.readline()
            self.memo[key] = json.loads(line) if line else {"err": "zygote died"}
        return self.memo[key]

    def ask(self, query):
        self.submit(query)
        return self.result()

    def close(self):
        try:
            self.q.close()
            os.kill(self.pid, signal.SIGKILL)  # (another forked helper may still hold the write end of the query pipe: do not wait for EOF)
            os.waitpid(self.pid, 0)
        except Exception:
            pass


class ReimportServer:
    """Second pristine oracle, ~10x cheaper than a fork per query in this sandbox: ONE process forked from the worker before any einx
    call; for every query it drops all einx modules from sys.modules, imports einx again (all module-level state of einx - caches,
    registry, stacks, memo tables - is re-created) and performs the call with freshly built user callables. What it does not reset
    is state kept outside einx's modules (sympy's caches, attributes hung on foreign objects); the fork-per-query Zygote stays in use
    on a sample of the queries, and a disagreement between the two oracles is reported."""

    def __init__(self, perform_fresh, timeout=120):
        """perform_fresh(query) -> digest; it must obtain einx via `import einx` (the fresh module) and build adapters itself."""
        self.timeout = timeout
        qr, qw = os.pipe()
        ar, aw = os.pipe()
        pid = os.fork()
        if pid == 0:
            os.close(qw)
            os.close(ar)
            fin = os.fdopen(qr, "r")
            fout = os.fdopen(aw, "w")
            try:
                for line in fin:
                    q = json.loads(line)
                    try:
                        for k in [k for k in sys.modules if k == "einx" or k.startswith("einx.")]:
                            del sys.modules[k]
                        signal.alarm(timeout)
                        d = perform_fresh(q)
                        signal.alarm(0)
                        payload = json.dumps({"ok": d})
                    except BaseException as e:  # noqa
                        signal.alarm(0)
                        payload = json.dumps({"err": repr(e)[:300]})
                    fout.write(payload + "\n")
                    fout.flush()
            finally:
                os._exit(0)
        os.close(qr)
        os.close(aw)
        self.pid = pid
        self.q = os.fdopen(qw, "w")
        self.a = os.fdopen(ar, "r")
        self.memo = {}
        self._pending = None

    def submit(self, query):
        key = json.dumps(query, sort_keys=True)
        self._pending = key
        if key not in self.memo:
            self.q.write(key + "\n")
            self.q.flush()

    def result(self):
        key = self._pending
        if key not in self.memo:
            ready, _, _ = select.select([self.a], [], [], self.timeout + 30)
            line = self.a.readline() if ready else ""
            self.memo[key] = json.loads(line) if line else {"err": "re-import server died or timed out"}
        return self.memo[key]

    def close(self):
        try:
            self.q.close()
            os.kill(self.pid, signal.SIGKILL)
            os.waitpid(self.pid, 0)
        except Exception:
            pass
