"""F - pristine-interpreter oracle. A zygote process is forked from the worker after einx and
the call pool exist but before any einx call was made; for every query it forks a child that
performs just that call and reports an outcome digest through a pipe."""
import json
import os
import select
import signal
import sys


class Zygote:
    def __init__(self, perform, timeout=60):
        """perform(query) -> digest (JSON-able); runs in a grandchild forked from the pristine zygote."""
        self.timeout = timeout
        qr, qw = os.pipe()
        ar, aw = os.pipe()
        pid = os.fork()
        if pid == 0:
            # ---- zygote
            os.close(qw)
            os.close(ar)
            fin = os.fdopen(qr, "r")
            fout = os.fdopen(aw, "w")
            import gc
            gc.collect()
            gc.freeze()  # keep the garbage collector from touching (and thereby copying) the inherited heap in the children
            gc.disable()
            try:
                for line in fin:
                    q = json.loads(line)
                    r, w = os.pipe()
                    cpid = os.fork()
                    if cpid == 0:
                        os.close(r)
                        try:
                            d = perform(q)
                            payload = json.dumps({"ok": d})
                        except BaseException as e:  # noqa
                            payload = json.dumps({"err": repr(e)[:300]})
                        with os.fdopen(w, "w") as f:
                            f.write(payload)
                        os._exit(0)
                    os.close(w)
                    ready, _, _ = select.select([r], [], [], timeout)
                    if ready:
                        with os.fdopen(r, "r") as f:
                            data = f.read()
                        os.waitpid(cpid, 0)
                    else:
                        os.kill(cpid, signal.SIGKILL)
                        os.waitpid(cpid, 0)
                        os.close(r)
                        data = json.dumps({"timeout": True})
                    fout.write((data or json.dumps({"err": "empty"})) + "\n")
                    fout.flush()
            finally:
                os._exit(0)
        # ---- parent
        os.close(qr)
        os.close(aw)
        self.pid = pid
        self.q = os.fdopen(qw, "w")
        self.a = os.fdopen(ar, "r")
        self.memo = {}

    def submit(self, query):
        """Start the pristine evaluation of `query` (runs concurrently with the caller); fetch with result()."""
        key = json.dumps(query, sort_keys=True)
        self._pending = key
        if key not in self.memo:
            self.q.write(key + "\n")
            self.q.flush()

    def result(self):
        key = self._pending
        if key not in self.memo:
            line = self.a.readline()
            self.memo[key] = json.loads(line) if line else {"err": "zygote died"}
        return self.memo[key]

    def ask(self, query):
        self.submit(query)
        return self.result()

    def close(self):
        try:
            self.q.close()
            os.waitpid(self.pid, 0)
        except Exception:
            pass
