"""Entry point: python -m vf.check C01 --tier quick"""
import sys
from .runner import main

if __name__ == "__main__":
    sys.exit(main())
