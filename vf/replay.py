"""python -m vf.replay <replay.json>: re-runs one recorded case with the same monitor."""
import importlib
import json
import sys
import warnings

from .worker import Emitter, setup_einx_path, assert_einx_from_repo


def main():
    path = sys.argv[1]
    with open(path) as f:
        rec = json.load(f)
    warnings.simplefilter("ignore")
    setup_einx_path()
    assert_einx_from_repo()
    check = importlib.import_module(f"vf.checks.{rec['property'].lower()}")
    out = Emitter()
    if not hasattr(check, "replay"):
        print("no replay support for", rec["property"])
        return 2
    ok = check.replay(rec, out)
    out.flush()
    print("REPLAY", "reproduced" if not ok else "not-reproduced")
    return 1 if not ok else 0


if __name__ == "__main__":
    sys.exit(main())
