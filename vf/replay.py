"""python -m vf.replay <replay.json>: re-runs the shard that produced a recorded violation (same
seed, same generator, same monitors) in a fresh worker process and reports whether a violation
with the same mechanism record shows up again."""
import json
import os
import subprocess
import sys

from . import VERIF_DIR, PYTHON, repo_dir

MARK = "@@VF "


def main():
    path = sys.argv[1]
    with open(path) as f:
        rec = json.load(f)
    spec = rec.get("shard_spec")
    pid = rec["property"]
    if not spec:
        print("replay file has no shard_spec")
        return 2
    env = dict(os.environ)
    env["PYTHONHASHSEED"] = str(spec.get("hashseed", 0))
    env["PYTHONDONTWRITEBYTECODE"] = "1"
    env["PYTHONPATH"] = VERIF_DIR + os.pathsep + repo_dir()
    env["EINX_VERIF_REPO"] = repo_dir()
    p = subprocess.run([PYTHON, "-m", "vf.worker", pid, json.dumps(spec)], cwd=VERIF_DIR, env=env, capture_output=True, text=True)
    want = json.dumps(rec.get("mech", {}), sort_keys=True)
    found = None
    n = 0
    for line in p.stdout.splitlines():
        if line.startswith(MARK):
            ev = json.loads(line[len(MARK):])
            if ev.get("t") == "violation":
                n += 1
                if json.dumps(ev.get("mech", {}), sort_keys=True) == want and found is None:
                    found = ev
    print(f"replayed shard {spec.get('shard')} of {pid} (seed {spec.get('seed')}): {n} violation events")
    if found is not None:
        print("REPLAY reproduced:", found.get("desc", "")[:500])
        print(f"VIOLATION property={pid} replay={path}")
        return 1
    print("REPLAY not reproduced (no violation with the recorded mechanism in this shard)")
    return 0


if __name__ == "__main__":
    sys.exit(main())
