"""Small helpers shared by all checks."""
import hashlib
import os
import traceback

import numpy as np

FORBIDDEN = (AssertionError, NameError, KeyError, IndexError, AttributeError, RecursionError, UnboundLocalError, NotImplementedError)


def _repo():
    return os.path.abspath(os.environ.get("EINX_VERIF_REPO", "/repo")) + os.sep


def exc_site(e):
    """Mechanism key of an exception: innermost frame inside einx (file:function) and its two
    nearest einx callers. Line numbers are deliberately left out."""
    tb = traceback.extract_tb(e.__traceback__) if e.__traceback__ is not None else []
    repo = _repo()
    frames = []
    for fr in tb:
        fn = os.path.abspath(fr.filename)
        if fn.startswith(repo):
            rel = fn[len(repo):]
            if rel.startswith("einx" + os.sep):
                frames.append(f"{os.path.basename(rel)}:{fr.name}")
    if not frames:
        return {"site": "outside-einx", "callers": []}
    return {"site": frames[-1], "callers": frames[-3:-1][::-1]}


def root_exc(e):
    """Follow __cause__ of einx wrapper errors to the exception raised first."""
    seen = 0
    while e.__cause__ is not None and seen < 10:
        e = e.__cause__
        seen += 1
    return e


def digest_value(v):
    """Outcome digest of a returned value (tensor / tuple / scalar / str)."""
    if isinstance(v, np.ndarray):
        c = np.ascontiguousarray(v)
        return ("nd", str(c.dtype), tuple(c.shape), hashlib.sha1(c.tobytes()).hexdigest()[:16])
    if isinstance(v, (tuple, list)):
        return (type(v).__name__,) + tuple(digest_value(i) for i in v)
    if isinstance(v, np.generic):
        return ("npscalar", str(v.dtype), repr(v.item()))
    if isinstance(v, dict):
        return ("dict",) + tuple((k, digest_value(x)) for k, x in sorted(v.items()))
    return (type(v).__name__, repr(v))


def einx_error_classes():
    import einx

    return (
        einx.errors.SyntaxError,
        einx.errors.RankError,
        einx.errors.AxisSizeError,
        einx.errors.SemanticError,
        einx.errors.OperationNotSupportedError,
        einx.errors.BackendResolutionError,
    )


def short(x, n=200):
    s = repr(x)
    return s if len(s) <= n else s[: n - 3] + "..."
