"""Known findings: committed in /verif/known_findings.json, never written at run time.

An entry: {"id", "property", "status": "open"|"fixed", "what", "match": {...}, "example"}.
`match` is a structural predicate over a violation's `mech` record: every key of `match`
must be present in `mech` and equal (a list value in `match` means "one of"). `fixed`
entries match nothing. Line numbers, data and hashes are never part of a key.
"""
import json
import os

from . import VERIF_DIR


def load():
    path = os.path.join(VERIF_DIR, "known_findings.json")
    if not os.path.exists(path):
        return []
    with open(path) as f:
        return json.load(f)["findings"]


def by_id(kf, fid):
    for e in kf:
        if e["id"] == fid:
            return e
    return None


def _eq(want, got):
    if isinstance(want, dict) and "contains" in want:
        return want["contains"] in str(got)
    if isinstance(want, list) and not isinstance(got, list):
        return got in want
    return want == got


def match(kf, pid, mech):
    for e in kf:
        if e.get("status") != "open":
            continue
        props = e["property"] if isinstance(e["property"], list) else [e["property"]]
        if pid not in props:
            continue
        m = e["match"]
        if all(k in mech and _eq(v, mech[k]) for k, v in m.items()):
            return e["id"]
    return None


def short(v):
    d = v.get("desc") or ""
    if not d:
        d = json.dumps(v.get("witness", {}), default=str)
    return d.replace("\n", " ")[:300]
