"""Executing generated cases on the real einx, the reference R, and comparing."""
import contextlib

import numpy as np

from .ref import loops as R
from .argsan import Guard
from .util import exc_site, root_exc, FORBIDDEN

BACKEND_SELECTIONS = [None, "numpy", "numpy.numpylike", "numpy.einsum", "with:numpy", "with:numpy.einsum"]


def reference(case, tensors=None):
    """Expected outputs (list of arrays) by the loop-notation reference."""
    t = case.tensors if tensors is None else tensors
    fam, op = case.family, case.op
    if fam == "id":
        return R.ref_id(case.xin, case.xout, t, case.sizes)
    if fam == "elementwise":
        return R.ref_elementwise(op, case.xin, case.xout, t, case.sizes)
    if fam == "reduce":
        return R.ref_reduce(op, case.xin, case.xout, t, case.sizes)
    if fam == "dot":
        return R.ref_dot(case.xin, case.xout, t, case.sizes)
    if fam == "get_at":
        return R.ref_get_at(case.xin, case.xout, t, case.sizes)
    if fam == "preserve":
        return R.ref_preserve(op, case.xin, case.xout, t, case.sizes, shift=case.opts.get("shift"))
    if fam == "argfind":
        return R.ref_argfind(op, case.xin, case.xout, t, case.sizes)
    raise KeyError(fam)


def einx_call(case, backend_sel=None, tensors=None, graph=False, extra=None, fn=None):
    """Runs the real einx. Returns ('ok', value) or ('exc', exception)."""
    import einx

    t = list(case.tensors if tensors is None else tensors)
    kw = case.call_kwargs()
    if extra:
        kw.update(extra)
    if graph:
        kw["graph"] = True
    ctx = contextlib.nullcontext()
    if isinstance(backend_sel, str) and backend_sel.startswith("with:"):
        ctx = einx.backend.get(backend_sel[5:])
    elif backend_sel is not None:
        kw["backend"] = backend_sel
    f = fn if fn is not None else getattr(einx, case.op)
    try:
        with ctx:
            return ("ok", f(case.desc(), *t, **kw))
    except Exception as e:  # noqa
        return ("exc", e)


def as_list(v):
    if isinstance(v, tuple):
        return list(v)
    return [v]


def compare(expected, actual, inexact=False):
    """-> None if equal, else (kind, detail)."""
    act = as_list(actual)
    if len(act) != len(expected):
        return ("wrong-arity", f"expected {len(expected)} outputs, got {len(act)}")
    for i, (e, a) in enumerate(zip(expected, act)):
        try:
            a = np.asarray(a)
        except Exception:
            return ("wrong-type", f"output {i}: {type(a).__name__}")
        if tuple(a.shape) != tuple(e.shape):
            return ("wrong-shape", f"output {i}: expected shape {tuple(e.shape)}, got {tuple(a.shape)}")
        if a.dtype == object:
            return ("wrong-type", f"output {i}: object array")
        ef = e.astype(np.float64) if e.dtype != np.float64 else e
        af = a.astype(np.float64) if a.dtype != np.float64 else a
        if inexact:
            ok = np.allclose(ef, af, rtol=1e-9, atol=1e-12, equal_nan=True)
        else:
            ok = np.array_equal(ef, af, equal_nan=True)
        if not ok:
            bad = np.argwhere(~np.isclose(ef, af, rtol=1e-9, atol=1e-12, equal_nan=True))
            first = tuple(int(x) for x in bad[0]) if len(bad) else ()
            return ("wrong-value", f"output {i}: {len(bad)} of {ef.size} elements differ, first at {first}: expected {ef[first] if ef.ndim else ef}, got {af[first] if af.ndim else af}")
    return None


def is_inexact(case):
    return case.op in R.INEXACT or any(d in ("float32",) for d in case.dtypes)


def exc_mech(e):
    r = root_exc(e)
    m = {"exc": type(e).__name__}
    m.update(exc_site(r if r is not e and type(r).__module__.startswith("einx") is False else e))
    if r is not e:
        m["root"] = type(r).__name__
    return m
