"""setup_cmd: offline self-test of the machinery (imports, einx location, reference models on
hand-written cases with known answers). Exits non-zero if a reference model is wrong."""
import os
import sys
import warnings

from .worker import setup_einx_path, assert_einx_from_repo


def main():
    warnings.simplefilter("ignore")
    setup_einx_path()
    f = assert_einx_from_repo()
    print("einx from", f)
    fails = 0
    import importlib

    for modname in ("vf.ref.selftests",):
        try:
            m = importlib.import_module(modname)
        except ModuleNotFoundError:
            continue
        fails += m.run()
    print("selftest", "FAILED" if fails else "ok")
    return 1 if fails else 0


if __name__ == "__main__":
    sys.exit(main())
