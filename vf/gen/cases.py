"""G - grammar-based generator of well-formed einx calls (Appendix A of DESIGN.md).

A Case is built top-down from G's own AST: template expressions (with ellipses, numbers,
brackets, flatten/concat groups), repetition counts, leaf sizes, the minimal keyword sizes that
the propagation solver S needs, and seeded data. The same object carries the *effective*
explicit output (what an implicit output means by the documentation) for the reference R.
"""

import math
import random

import numpy as np

from .expr import Ax, Num, Flat, Cat, Br, Ell, Leaf, expand, xleaves, xshape, pr, pr_desc, copy_expr, copy_node, walk, ANON
from ..ref import solver as S

# x / y are parameter names of einx.where and cannot be passed as keyword sizes
LETTERS = list("abcdefghijklmnopqrstuvwz")
LONGNAMES = ["ab", "x1", "batch", "h_w", "A", "Zz", "_u", "c0", "dim", "ii"]
SIZE_POOL = [1, 2, 2, 3, 3, 4, 5]

REDUCE_OPS = ["sum", "mean", "var", "std", "prod", "count_nonzero", "any", "all", "max", "min", "logsumexp"]
ELEMENTWISE_OPS = [
    "add", "subtract", "multiply", "true_divide", "floor_divide", "divide", "logical_and", "logical_or", "where",
    "maximum", "minimum", "less", "less_equal", "greater", "greater_equal", "equal", "not_equal", "logaddexp",
]
NARY = {"add", "multiply", "logical_and", "logical_or", "maximum", "minimum", "logaddexp"}
PRESERVE_OPS = ["flip", "roll", "sort", "argsort", "softmax", "log_softmax"]
ARGFIND_OPS = ["argmax", "argmin"]
UPDATE_OPS = ["set_at", "add_at", "subtract_at"]
FAMILIES = ["id", "elementwise", "reduce", "dot", "get_at", "preserve", "argfind"]


class Skip(Exception):
    """The drawn structure cannot be completed into a well-formed call; draw again."""


class Namer:
    def __init__(self, rng, long_p=0.12):
        self.rng = rng
        self.used = set()
        self.long_p = long_p

    def new(self):
        for _ in range(100):
            n = self.rng.choice(LONGNAMES) if self.rng.random() < self.long_p else self.rng.choice(LETTERS)
            if n not in self.used:
                self.used.add(n)
                return n
        raise Skip()


class Var:
    """A named axis variable of the case: plain (reps None) or living under an ellipsis group."""

    def __init__(self, name, sizes, group=None, bracket=False):
        self.name = name
        self.sizes = sizes  # list[int]; one entry for a plain axis, reps entries under an ellipsis
        self.group = group
        self.bracket = bracket

    @property
    def plain(self):
        return self.group is None

    @property
    def unit(self):
        return all(s == 1 for s in self.sizes)


class Case:
    def __init__(self, family, op):
        self.family = family
        self.op = op
        self.inputs = []
        self.outputs = None  # None = implicit output
        self.eff_outputs = None
        self.reps = {}
        self.var_sizes = {}  # template axis name -> list of sizes (per repetition) or [size]
        self.var_group = {}
        self.kwargs = {}
        self.opts = {}
        self.tensors = []
        self.dtypes = []
        self.feats = set()
        self.sizes = None
        self.xin = None
        self.xout = None
        self.note = {}

    # ---- derived data
    def desc(self):
        return pr_desc(self.inputs, self.outputs)

    def finish(self):
        """Expand, compute leaf sizes and shapes."""
        self.xin = [expand(e, self.reps) for e in self.inputs]
        self.xout = [expand(e, self.reps) for e in self.eff_outputs]
        sizes = {}
        uid2val = {}
        for e in list(self.inputs) + list(self.eff_outputs):
            for n in walk(e):
                if isinstance(n, Num):
                    uid2val[n.uid] = n.value
        for e in self.xin + self.xout:
            for l in xleaves(e):
                if l.isnum:
                    sizes[l.name] = uid2val[l.tname]
                else:
                    vs = self.var_sizes[l.tname]
                    suffix = l.name[len(l.tname):]
                    idx = [int(t) for t in suffix.split(".") if t]
                    sizes[l.name] = vs[idx[-1]] if idx else vs[0]
        self.sizes = sizes
        self.in_shapes = [xshape(e, sizes) for e in self.xin]
        self.out_shapes = [xshape(e, sizes) for e in self.xout]
        for s in self.in_shapes + self.out_shapes:
            if math.prod(s) > 6000 and not self.note.get("no_size_limit"):
                raise Skip()

    def skeleton(self):
        """Description with axis names abstracted (for counting distinct structures)."""
        ren = {}

        def r(items):
            out = []
            for n in items:
                if isinstance(n, Ax):
                    out.append(Ax(ren.setdefault(n.name, f"x{len(ren)}")))
                elif isinstance(n, Num):
                    out.append(Ax("1" if n.value == 1 else "N"))
                elif isinstance(n, Ell):
                    out.append(Ell(r(n.items), n.group, n.anon))
                else:
                    out.append(type(n)(r(n.items)))
            return out

        return pr_desc([r(e) for e in self.inputs], None if self.outputs is None else [r(e) for e in self.outputs])

    def call_kwargs(self):
        kw = dict(self.kwargs)
        kw.update(self.opts)
        return kw

    def to_json(self):
        return {
            "op": self.op,
            "desc": self.desc(),
            "eff_out": ", ".join(pr(e) for e in self.eff_outputs),
            "shapes": [list(s) for s in self.in_shapes],
            "dtypes": self.dtypes,
            "kwargs": {k: (list(v) if isinstance(v, (list, tuple)) else int(v)) for k, v in self.kwargs.items()},
            "opts": {k: (list(v) if isinstance(v, (list, tuple)) else v) for k, v in self.opts.items()},
            "feats": sorted(self.feats),
        }


# ------------------------------------------------------------------ building blocks


def draw_size(rng, maxlen):
    return min(rng.choice(SIZE_POOL), maxlen)


def make_vars(rng, namer, n, maxlen, bracket=False, ell_p=0.0, reps_pool=(0, 1, 2, 2, 3), group_prefix="g"):
    """n axis variables; with probability ell_p a variable lives under an ellipsis."""
    out = []
    for _ in range(n):
        name = namer.new()
        if rng.random() < ell_p:
            r = rng.choice(reps_pool)
            out.append(Var(name, [draw_size(rng, maxlen) for _ in range(r)], group=f"{group_prefix}:{name}", bracket=bracket))
        else:
            out.append(Var(name, [draw_size(rng, maxlen)], bracket=bracket))
    return out


def atom(v, case, rng, anon_ok=False):
    """Template node for one variable occurrence (without brackets)."""
    case.var_sizes[v.name] = v.sizes
    if v.plain:
        return Ax(v.name)
    case.reps[v.group] = len(v.sizes)
    case.feats.add("ellipsis")
    if len(v.sizes) == 0:
        case.feats.add("ellipsis-empty")
    return Ell([Ax(v.name)], v.group)


def structure(rng, atoms, case, flat_p=0.3, depth=0, in_bracket=False):
    """atoms: list of (node, bracketed). Groups consecutive atoms into flattened axes and places
    brackets around maximal or partial runs of bracketed atoms."""
    # 1. choose chunks to flatten
    items = []
    i = 0
    while i < len(atoms):
        if depth < 2 and len(atoms) - i >= 2 and rng.random() < flat_p:
            k = rng.choice([2, 2, 3]) if len(atoms) - i >= 3 else 2
            chunk = atoms[i:i + k]
            allbr = all(b for _, b in chunk)
            anybr = any(b for _, b in chunk)
            case.feats.add("flatten" if depth == 0 else "flatten-nested")
            if allbr and not in_bracket and case.note.get("br_flat_p", 0.0) > 0 and rng.random() < case.note["br_flat_p"]:
                # a bracket around a parenthesised group: ONE dimension of the elementary operation
                inner = structure(rng, [(n, False) for n, _ in chunk], case, flat_p * 0.6, depth + 1, True)
                items.append((Br([Flat(inner)]), False))
                case.feats.add("bracket-around-flatten")
            else:
                inner = structure(rng, chunk, case, flat_p * 0.6, depth + 1, in_bracket)
                if anybr:
                    case.feats.add("bracket-in-flatten")
                if sum(1 for _, b in chunk if b) >= 2:
                    case.feats.add("multi-bracket-in-flatten")
                items.append((Flat(inner), False))
            i += k
        else:
            items.append(atoms[i])
            i += 1
    # 2. place brackets around runs
    out = []
    j = 0
    while j < len(items):
        n, b = items[j]
        if b and not in_bracket:
            run = [n]
            j += 1
            while j < len(items) and items[j][1] and rng.random() < 0.6:
                run.append(items[j][0])
                j += 1
            if len(run) == 1 and isinstance(run[0], Ell) and rng.random() < 0.5:
                # [s]... instead of [s...]
                e = run[0]
                out.append(Ell([Br(e.items)], e.group, e.anon))
            else:
                out.append(Br(run))
            if len(run) > 1:
                case.feats.add("bracket-group")
        else:
            out.append(n)
            j += 1
    return out


def perm(rng, xs, p=0.7):
    xs = list(xs)
    if rng.random() < p:
        rng.shuffle(xs)
    return xs


def insert_units(rng, atoms, case, p=0.15, bracket=False):
    """Insert literal '1' axes (always droppable / insertable un-bracketed unit axes)."""
    out = list(atoms)
    while rng.random() < p:
        out.insert(rng.randint(0, len(out)), (Num(1), bracket))
        case.feats.add("unit-literal")
    return out


def numberize(rng, case, p=0.25):
    """Replace a plain named axis that occurs exactly once in the whole description by its number."""
    exprs = list(case.inputs) + list(case.outputs or [])
    counts = {}
    for e in exprs:
        for n in walk(e):
            if isinstance(n, Ax):
                counts[n.name] = counts.get(n.name, 0) + 1
    # names copied into an implicit output count as shared -> handled by uid sharing in eff_outputs
    def rec(items, top_ell=False):
        for i, n in enumerate(items):
            if isinstance(n, Ax):
                if counts.get(n.name) == 1 and not top_ell and n.name in case.var_sizes and len(case.var_sizes[n.name]) == 1 and case.var_group.get(n.name) is None and (rng.random() < p or n.name in case.note.get("force_number", ())):
                    if case.family == "elementwise" and case.outputs is None and case.var_sizes[n.name][0] == 1:
                        continue  # a literal 1 is ignored by the implicit-output rule, a named unit axis is not
                    num = Num(case.var_sizes[n.name][0])
                    items[i] = num
                    case.note.setdefault("numberized", {})[n.name] = num
                    case.feats.add("number")
            elif isinstance(n, Ell):
                # "2..." : a number under an ellipsis is a fresh axis of that length in every repetition
                if (len(n.items) == 1 and isinstance(n.items[0], Ax) and not n.anon and counts.get(n.items[0].name) == 1 and n.items[0].name in case.var_sizes
                        and len(set(case.var_sizes[n.items[0].name])) <= 1 and case.reps.get(n.group, 0) == len(case.var_sizes[n.items[0].name]) and rng.random() < case.note.get("num_ell_p", 0.3)):
                    nm = n.items[0].name
                    vs = case.var_sizes[nm]
                    val = vs[0] if vs else 2
                    if not (case.family == "elementwise" and case.outputs is None and val == 1):
                        num = Num(val)
                        n.items[0] = num
                        case.note.setdefault("numberized", {})[nm] = num
                        case.feats.add("number")
                        case.feats.add("number-under-ellipsis")
                        continue
                rec(n.items, True)
            elif isinstance(n, (Flat, Cat, Br)):
                rec(n.items, top_ell)

    for e in exprs:
        rec(e)


def apply_numberized_to_eff(case):
    """eff_outputs may hold copies of numberized axes: replace them by the same Num (same uid)."""
    m = case.note.get("numberized", {})
    if not m:
        return

    def rec(items):
        for i, n in enumerate(items):
            if isinstance(n, Ax) and n.name in m:
                items[i] = Num(m[n.name].value, m[n.name].uid)
            elif isinstance(n, (Flat, Cat, Br, Ell)):
                rec(n.items)

    for e in case.eff_outputs:
        rec(e)


def choose_kwargs(rng, case, extra_p=0.15, unknown=(), start=None, assign=True):
    """Minimal keyword sizes for S's propagation solver, sometimes plus redundant consistent ones.
    `unknown`: input positions whose shape gives no constraint (tensor factories)."""
    exprs = list(case.inputs) + list(case.outputs or [])
    shapes = [None if i in unknown else s for i, s in enumerate(case.in_shapes)] + [None] * len(case.outputs or [])
    kwargs = dict(start or {})
    names = []
    for e in exprs:
        for n in walk(e):
            if isinstance(n, Ax) and n.name not in names:
                names.append(n.name)
            if isinstance(n, Ell) and n.anon and ANON not in names:
                pass

    def kwval(name):
        vs = case.var_sizes[name]
        if case.var_group.get(name) is None and len(vs) == 1 and name not in [v for v in case.note.get("ellnames", [])]:
            return int(vs[0])
        if len(vs) > 0 and len(set(vs)) == 1 and rng.random() < 0.5:
            case.feats.add("kw-ellipsis-scalar")
            return int(vs[0])
        case.feats.add("kw-ellipsis-tuple")
        return tuple(int(v) for v in vs) if rng.random() < 0.7 else [int(v) for v in vs]

    for _ in range(40):
        sol = S.propagate(exprs, shapes, kwargs)
        if sol.rank == "contradiction" or sol.value == "contradiction":
            raise Skip()
        if sol.rank == "derived" and sol.value == "derived":
            break
        if sol.rank == "stuck":
            # a repetition count is not determined: give a tuple for an axis of an undetermined group
            cands = [n for n in names if case.var_group.get(n) is not None and case.var_group[n] not in sol.reps and n not in kwargs]
            if not cands:
                raise Skip()
            n = rng.choice(cands)
            vs = case.var_sizes[n]
            if len(vs) == 0:
                kwargs[n] = () if rng.random() < 0.5 else []
            else:
                kwargs[n] = tuple(int(v) for v in vs)
            case.feats.add("kw-determines-rank")
            continue
        # value stage stuck: add one undetermined axis
        und = []
        for e in sol.xexprs:
            for l in xleaves(e):
                if l.name not in sol.sizes and not l.isnum and l.tname not in kwargs and l.tname not in und:
                    und.append(l.tname)
        if not und:
            raise Skip()
        n = rng.choice(und)
        kwargs[n] = kwval(n)
        case.feats.add("kw-needed")
    else:
        raise Skip()
    for n in names:
        if n not in kwargs and rng.random() < extra_p and len(case.var_sizes.get(n, [])) > 0:
            kwargs[n] = kwval(n)
            case.feats.add("kw-redundant")
    if assign:
        case.kwargs = kwargs
    return kwargs


# ------------------------------------------------------------------ data


def make_data(rng, shape, kind, nprng, distinct=False, low=-3, high=6, nonzero=False):
    n = int(np.prod(shape)) if len(shape) else 1
    if distinct:
        vals = nprng.permutation(n).astype(np.int64) - n // 3
    else:
        vals = nprng.integers(low, high + 1, size=n)
    if nonzero:
        vals = np.where(vals == 0, 7, vals)
    if kind == "float64":
        arr = vals.astype(np.float64)
    elif kind == "int64":
        arr = vals.astype(np.int64)
    elif kind == "int32":
        arr = vals.astype(np.int32)
    elif kind == "bool":
        arr = (vals % 2 == 0) if not distinct else (vals % 2 == 0)
    elif kind == "float32":
        arr = vals.astype(np.float32)
    else:
        raise KeyError(kind)
    return arr.reshape(shape)


LAYOUTS = ["c", "c", "c", "transposed", "negstride", "broadcast", "readonly", "fortran"]


def relayout(arr, layout):
    """Same values, different memory layout / flags."""
    if arr.ndim == 0 or layout == "c":
        return np.array(arr, copy=True)
    if layout == "transposed":
        return np.ascontiguousarray(arr.T).T
    if layout == "fortran":
        return np.asfortranarray(arr)
    if layout == "negstride":
        rev = np.ascontiguousarray(arr[..., ::-1])
        return rev[..., ::-1]
    if layout == "broadcast":
        # only a real broadcast view if some axis holds a constant slice; otherwise fall back to a strided view
        big = np.zeros(tuple(2 * s for s in arr.shape), dtype=arr.dtype)
        view = big[tuple(slice(None, None, 2) for _ in arr.shape)]
        view[...] = arr
        return view
    if layout == "readonly":
        a = np.array(arr, copy=True)
        a.flags.writeable = False
        return a
    raise KeyError(layout)


# ------------------------------------------------------------------ families


def _mk(rng, family, op):
    c = Case(family, op)
    c.rng = rng
    return c


def _register(case, vs):
    for v in vs:
        case.var_sizes[v.name] = v.sizes
        case.var_group[v.name] = v.group
        if v.group is not None:
            case.reps[v.group] = len(v.sizes)


def _atoms(case, rng, vs):
    return [(atom(v, case, rng), v.bracket) for v in vs]


def _out_with_broadcast(rng, namer, case, base_vars, maxlen, p=0.2):
    """Output-only (broadcast) axes: new names that need a keyword size or a number."""
    extra = []
    while rng.random() < p:
        v = Var(namer.new(), [draw_size(rng, maxlen)])
        extra.append(v)
        case.feats.add("broadcast")
    _register(case, extra)
    return list(base_vars) + extra


def gen_id(rng, P):
    case = _mk(rng, "id", "id")
    namer = Namer(rng)
    maxlen = P["maxlen"]
    mode = rng.choices(["plain", "plain", "concat", "grid"], weights=[5, 3, 3, 1])[0]
    if mode in ("plain",):
        n_in = rng.choice([1, 1, 1, 2, 3])
        ins, outs, eff = [], [], []
        for _ in range(n_in):
            vs = make_vars(rng, namer, rng.randint(0, 4), maxlen, ell_p=P["ell_p"])
            _register(case, vs)
            in_atoms = _atoms(case, rng, perm(rng, vs, 0.0))
            # diagonal: repeat a plain non-unit variable in the input
            plain = [v for v in vs if v.plain]
            if plain and rng.random() < 0.15:
                v = rng.choice(plain)
                in_atoms.insert(rng.randint(0, len(in_atoms)), (Ax(v.name), False))
                case.feats.add("diagonal")
                if rng.random() < 0.4:
                    in_atoms.insert(rng.randint(0, len(in_atoms)), (Ax(v.name), False))
                    case.feats.add("diagonal-triple")
            in_atoms = insert_units(rng, in_atoms, case)
            ins.append(structure(rng, in_atoms, case, P["flat_p"]))
            # output: all non-unit vars (unit vars may be dropped), permuted, plus broadcast/new unit axes
            ovs = [v for v in vs if not (v.unit and v.plain and rng.random() < 0.5)]
            if len(ovs) != len(vs):
                case.feats.add("squeeze")
            ovs = _out_with_broadcast(rng, namer, case, ovs, maxlen)
            ovs = perm(rng, ovs)
            if ovs != vs:
                case.feats.add("permute")
            out_atoms = insert_units(rng, _atoms(case, rng, ovs), case)
            outs.append(structure(rng, out_atoms, case, P["flat_p"]))
        case.inputs = ins
        if n_in == 1 and rng.random() < 0.1:
            # implicit output: inputs repeated as outputs
            case.outputs = None
            case.eff_outputs = [copy_expr(e) for e in ins]
            if any("diagonal" in f for f in case.feats):
                raise Skip()  # an output may not repeat an un-bracketed name
            case.feats.add("implicit-output")
        else:
            case.outputs = outs
            case.eff_outputs = outs
    elif mode == "concat":
        # pieces differ in one axis; shared axes are common to all pieces
        shared = make_vars(rng, namer, rng.randint(0, 3), maxlen, ell_p=P["ell_p"] * 0.5)
        _register(case, shared)
        npieces = rng.choice([2, 2, 3, 4])
        piece_axes = []
        for _ in range(npieces):
            r = rng.random()
            if r < 0.6:
                v = make_vars(rng, namer, 1, maxlen)[0]
                _register(case, [v])
                piece_axes.append([v])
            elif r < 0.8:
                piece_axes.append("one")  # literal 1
            else:
                vs = make_vars(rng, namer, 2, maxlen)
                _register(case, vs)
                piece_axes.append(vs)  # flattened group inside the concatenation

        def piece_node(pa):
            if pa == "one":
                return Num(1)
            if len(pa) == 1:
                return Ax(pa[0].name)
            case.feats.add("flatten-in-concat")
            return Flat([Ax(v.name) for v in pa])

        def side(parts):
            exprs = []
            for grp in parts:
                order = perm(rng, shared)
                atoms_ = _atoms(case, rng, order)
                if len(grp) == 1:
                    pa = piece_axes[grp[0]]
                    if pa == "one":
                        node_atoms = [(Num(1), False)]
                    else:
                        node_atoms = [(Ax(v.name), False) for v in pa]
                    pos = rng.randint(0, len(atoms_))
                    atoms_[pos:pos] = node_atoms
                    exprs.append(structure(rng, atoms_, case, P["flat_p"] * 0.5))
                else:
                    cat = Cat([piece_node(piece_axes[i]) for i in grp])
                    case.feats.add("concat")
                    pos = rng.randint(0, len(atoms_))
                    atoms_.insert(pos, (cat, False))
                    exprs.append(structure(rng, atoms_, case, P["flat_p"] * 0.5))
            return exprs

        def partition(n):
            parts, i = [], 0
            while i < n:
                k = rng.randint(1, n - i)
                parts.append(list(range(i, i + k)))
                i += k
            return parts

        pin, pout = partition(npieces), partition(npieces)
        if all(len(g) == 1 for g in pin) and all(len(g) == 1 for g in pout):
            pout = [list(range(npieces))]
        case.inputs = side(pin)
        case.outputs = side(pout)
        case.eff_outputs = case.outputs
        if any(len(g) > 1 for g in pin):
            case.feats.add("split")
        if any(len(g) > 1 for g in pout):
            case.feats.add("concatenate")
    else:  # grid: two concatenations in one tensor
        rows = make_vars(rng, namer, 2, maxlen)
        cols = make_vars(rng, namer, 2, maxlen)
        shared = make_vars(rng, namer, rng.randint(0, 1), maxlen)
        _register(case, rows + cols + shared)
        big = [(Cat([Ax(v.name) for v in rows]), False), (Cat([Ax(v.name) for v in cols]), False)] + _atoms(case, rng, shared)
        rng.shuffle(big)
        # the piece order follows the textual order of the two concatenations in `big`
        cats = [n for n, _ in big if isinstance(n, Cat)]
        first, second = cats[0], cats[1]
        small = []
        for a in first.items:
            for b in second.items:
                atoms_ = [(Ax(a.name), False), (Ax(b.name), False)] + _atoms(case, rng, shared)
                rng.shuffle(atoms_)
                small.append(structure(rng, atoms_, case, 0.1))
        bigexpr = structure(rng, big, case, 0.0)
        case.feats.add("concat")
        case.feats.add("concat-grid")
        if rng.random() < 0.5:
            case.inputs, case.outputs = [bigexpr], small
        else:
            case.inputs, case.outputs = small, [bigexpr]
        case.eff_outputs = case.outputs
    return case, namer


def _elementwise_dtypes(rng, op, n):
    if op in ("logical_and", "logical_or"):
        return ["bool"] * n
    if op == "where":
        return ["bool", rng.choice(["float64", "int64"]), rng.choice(["float64", "int64"])]
    if op in ("logaddexp", "true_divide", "divide"):
        return ["float64"] * n
    return [rng.choice(["float64", "float64", "int64"]) for _ in range(n)]


def gen_elementwise(rng, P, op=None):
    op = op or rng.choice(ELEMENTWISE_OPS)
    case = _mk(rng, "elementwise", op)
    namer = Namer(rng)
    maxlen = P["maxlen"]
    from ..ref.loops import ELEMENTWISE_ARITY

    ar = ELEMENTWISE_ARITY[op]
    n = ar if ar is not None else rng.choice([1, 2, 2, 2, 3, 4])
    allv = make_vars(rng, namer, rng.randint(0, 4), maxlen, ell_p=P["ell_p"])
    _register(case, allv)
    ins = []
    subsets = []
    for i in range(n):
        sub = [v for v in allv if rng.random() < 0.65]
        subsets.append(sub)
    # every variable must appear in at least one input (else it is a broadcast axis)
    for v in allv:
        if not any(v in s for s in subsets):
            rng.choice(subsets).append(v)
    for sub in subsets:
        atoms_ = _atoms(case, rng, perm(rng, sub))
        plain = [v for v in sub if v.plain]
        if plain and rng.random() < 0.06:
            v = rng.choice(plain)
            atoms_.insert(rng.randint(0, len(atoms_)), (Ax(v.name), False))
            case.feats.add("diagonal")
            if rng.random() < 0.3:
                atoms_.insert(rng.randint(0, len(atoms_)), (Ax(v.name), False))
                case.feats.add("diagonal-triple")
        atoms_ = insert_units(rng, atoms_, case, 0.1)
        ins.append(structure(rng, atoms_, case, P["flat_p"]))
    case.inputs = ins
    if any(len(s) < len(allv) for s in subsets):
        case.feats.add("broadcast-input")
    # implicit output: the unique input whose non-unit names contain all others'
    if rng.random() < 0.3:
        def names_of(e):
            return {n_.name for n_ in walk(e) if isinstance(n_, Ax)} | {n_.uid for n_ in walk(e) if isinstance(n_, Num) and n_.value != 1}
        # einx's rule ignores literal 1 axes only; a named axis counts even if its length turns out to be 1
        nonunit = [names_of(e) for e in ins]
        parents = [i for i in range(n) if all(nonunit[j] <= nonunit[i] for j in range(n) if j != i)]
        if n == 1:
            parents = [0]
        if len(parents) == 1 and "diagonal" not in case.feats:
            case.outputs = None
            case.eff_outputs = [copy_expr(ins[parents[0]])]
            case.feats.add("implicit-output")
    if case.eff_outputs is None:
        ovs = [v for v in allv if not (v.unit and v.plain and rng.random() < 0.4)]
        ovs = _out_with_broadcast(rng, namer, case, ovs, maxlen, 0.12)
        out_atoms = insert_units(rng, _atoms(case, rng, perm(rng, ovs)), case, 0.1)
        case.outputs = [structure(rng, out_atoms, case, P["flat_p"])]
        case.eff_outputs = case.outputs
    case.dtypes = _elementwise_dtypes(rng, op, n)
    return case, namer


def gen_reduce(rng, P, op=None):
    op = op or rng.choice(REDUCE_OPS)
    case = _mk(rng, "reduce", op)
    namer = Namer(rng)
    maxlen = P["maxlen"]
    vec = make_vars(rng, namer, rng.randint(0, 3), maxlen, ell_p=P["ell_p"])
    red = make_vars(rng, namer, rng.choice([0, 1, 1, 1, 2, 2, 3]), maxlen, bracket=True, ell_p=P["ell_p"])
    _register(case, vec + red)
    case.note["br_flat_p"] = P.get("br_flat_p", 0.0)
    mode = rng.choice(["bracket", "bracket", "bracket", "unbracketed"])
    if mode == "unbracketed" and red and all(v.plain for v in red) and all(v.plain for v in vec):
        # no brackets, explicit output: axes missing from the output are reduced; no name twice
        atoms_ = [(atom(v, case, rng), False) for v in perm(rng, vec + red)]
        case.inputs = [structure(rng, atoms_, case, P["flat_p"])]
        # output-only (broadcast) axes: after numberize they may print like a reduced numeric input axis ("a 3 b -> a 3")
        ovs_ = _out_with_broadcast(rng, namer, case, list(vec), maxlen, 0.3)
        extra_ = [v for v in ovs_ if v not in vec]
        if extra_ and rng.random() < 0.6:
            # the same number on both sides denotes two different axes: force that situation
            rv, bv = rng.choice(red), rng.choice(extra_)
            if rv.sizes[0] != 1:
                bv.sizes[0] = rv.sizes[0]
                case.var_sizes[bv.name] = bv.sizes
                case.note.setdefault("force_number", set()).update({rv.name, bv.name})
                case.feats.add("equal-numbers-both-sides")
        out_atoms = _atoms(case, rng, perm(rng, ovs_))
        case.outputs = [structure(rng, out_atoms, case, P["flat_p"])]
        # effective: brackets on the reduced axes
        eff_in_atoms = None
        case.feats.add("reduce-unbracketed")
        case.note["mark_reduced"] = [v.name for v in red]
        case.eff_outputs = case.outputs
    else:
        atoms_ = _atoms(case, rng, perm(rng, vec + red))
        plain = [v for v in vec if v.plain]
        if plain and red and sum(len(v.sizes) for v in red) > 0 and rng.random() < 0.08:
            # (without any bracket the un-bracketed mode applies, which forbids repeated names)
            v = rng.choice(plain)
            atoms_.insert(rng.randint(0, len(atoms_)), (Ax(v.name), False))
            case.feats.add("diagonal")
            if rng.random() < 0.3:
                atoms_.insert(rng.randint(0, len(atoms_)), (Ax(v.name), False))
                case.feats.add("diagonal-triple")
        atoms_ = insert_units(rng, atoms_, case, 0.1)
        case.inputs = [structure(rng, atoms_, case, P["flat_p"])]
        r = rng.random()
        if r < 0.3 and "diagonal" not in case.feats:
            case.outputs = None
            keep = rng.random() < 0.3
            if keep:
                case.opts["keepdims"] = True
                case.feats.add("keepdims")
            case.eff_outputs = [_remove_brackets(case.inputs[0], keepdims=keep)]
            case.feats.add("implicit-output")
        else:
            ovs = [v for v in vec if not (v.unit and v.plain and rng.random() < 0.4)]
            ovs = _out_with_broadcast(rng, namer, case, ovs, maxlen, 0.12)
            out_atoms = insert_units(rng, _atoms(case, rng, perm(rng, ovs)), case, 0.1)
            case.outputs = [structure(rng, out_atoms, case, P["flat_p"])]
            case.eff_outputs = case.outputs
    if op in ("any", "all"):
        case.dtypes = ["bool"]
    elif op in ("logsumexp", "mean", "var", "std"):
        case.dtypes = ["float64"]
    else:
        case.dtypes = [rng.choice(["float64", "float64", "int64"])]
    return case, namer


def _remove_brackets(items, keepdims=False):
    out = []
    for n in items:
        if isinstance(n, Br):
            if keepdims:
                out.append(Flat([]))
        elif isinstance(n, Ell):
            inner = _remove_brackets(n.items, keepdims)
            if inner:
                out.append(Ell(inner, n.group, n.anon))
        elif isinstance(n, (Flat, Cat)):
            out.append(type(n)(_remove_brackets(n.items, keepdims)))
        else:
            out.append(copy_node(n))
    return out


def gen_dot(rng, P):
    case = _mk(rng, "dot", "dot")
    namer = Namer(rng)
    maxlen = P["maxlen"]
    n = rng.choice([2, 2, 2, 2, 3])
    contracted = make_vars(rng, namer, rng.choice([0, 1, 1, 1, 2]), maxlen, bracket=True)
    free = make_vars(rng, namer, rng.randint(0, 4), maxlen, ell_p=P["ell_p"] * 0.6)
    _register(case, contracted + free)
    subsets = [[] for _ in range(n)]
    for v in contracted:
        i, j = rng.sample(range(n), 2)
        subsets[i].append(v)
        subsets[j].append(v)
    for v in free:
        ks = [k for k in range(n) if rng.random() < 0.5] or [rng.randrange(n)]
        for k in ks:
            subsets[k].append(v)
    unbr = rng.random() < 0.25 and all(v.plain for v in contracted + free) and contracted
    ins = []
    for sub in subsets:
        vs = perm(rng, sub)
        atoms_ = [(atom(v, case, rng), (v.bracket and not unbr)) for v in vs]
        ins.append(structure(rng, atoms_, case, P["flat_p"]))
    case.inputs = ins
    if unbr:
        case.feats.add("dot-unbracketed")
        case.note["mark_reduced"] = [v.name for v in contracted]
    ovs = perm(rng, free)
    ovs = _out_with_broadcast(rng, namer, case, ovs, maxlen, 0.08)
    case.outputs = [structure(rng, _atoms(case, rng, ovs), case, P["flat_p"])]
    case.eff_outputs = case.outputs
    if n > 2:
        case.feats.add("dot-nary")
    if len(contracted) > 1:
        case.feats.add("dot-multi-contract")
    if not contracted:
        case.feats.add("dot-no-contract")
    case.dtypes = [rng.choice(["float64", "float64", "int64"]) for _ in range(n)]
    return case, namer


def _coord_exprs(rng, namer, case, nb, vec_pool, maxlen, P):
    """Coordinate tensors for nb indexed axes: each with <= 1 bracketed axis; lengths sum to nb."""
    parts = []
    left = nb
    while left > 0:
        k = rng.randint(1, left)
        parts.append(k)
        left -= k
    exprs, infos = [], []
    for k in parts:
        sub = [v for v in vec_pool if rng.random() < 0.6]
        atoms_ = _atoms(case, rng, perm(rng, sub))
        if k == 1 and rng.random() < 0.5:
            br = None  # scalar coordinate, no bracket
        else:
            if rng.random() < 0.7:
                br = Num(k)
            else:
                v = Var(namer.new(), [k], bracket=True)
                _register(case, [v])
                case.note.setdefault("fixed_vars", set()).add(v.name)  # its length is the number of coordinates
                br = Ax(v.name)
            atoms_.insert(rng.randint(0, len(atoms_)), (br, True))
        exprs.append((structure(rng, atoms_, case, P["flat_p"] * 0.5), sub))
        infos.append((k, br is not None))
    if len(parts) > 1:
        case.feats.add("multi-coord")
    return exprs, infos


def gen_get_at(rng, P):
    case = _mk(rng, "get_at", "get_at")
    namer = Namer(rng)
    maxlen = P["maxlen"]
    idx = make_vars(rng, namer, rng.choice([1, 1, 2, 2, 3]), maxlen, bracket=True)
    tvec = make_vars(rng, namer, rng.randint(0, 2), maxlen, ell_p=P["ell_p"] * 0.5)
    cvec = make_vars(rng, namer, rng.randint(0, 2), maxlen)
    _register(case, idx + tvec + cvec)
    atoms_ = _atoms(case, rng, perm(rng, idx + tvec))
    case.inputs = [structure(rng, atoms_, case, P["flat_p"] * 0.6)]
    pool = tvec + cvec
    cexprs, infos = _coord_exprs(rng, namer, case, len(idx), pool, maxlen, P)
    used = set()
    for e, sub in cexprs:
        case.inputs.append(e)
        used.update(v.name for v in sub)
    ovs = [v for v in tvec] + [v for v in cvec if v.name in used]
    ovs = [v for v in ovs if not (v.unit and v.plain and rng.random() < 0.3)]
    case.outputs = [structure(rng, _atoms(case, rng, perm(rng, ovs)), case, P["flat_p"] * 0.6)]
    case.eff_outputs = case.outputs
    case.note["coord_info"] = infos
    case.note["indexed"] = [v.name for v in idx]
    case.dtypes = [rng.choice(["float64", "int64"])] + ["int64"] * len(cexprs)
    return case, namer


def gen_update(rng, P, op=None):
    op = op or rng.choice(UPDATE_OPS)
    case = _mk(rng, "update", op)
    namer = Namer(rng)
    maxlen = P["maxlen"]
    idx = make_vars(rng, namer, rng.choice([1, 1, 2, 2, 3]), maxlen, bracket=True)
    tvec = make_vars(rng, namer, rng.randint(0, 2), maxlen)
    cvec = make_vars(rng, namer, rng.randint(0, 2), maxlen)
    _register(case, idx + tvec + cvec)
    tatoms = _atoms(case, rng, perm(rng, idx + tvec))
    target = structure(rng, tatoms, case, P["flat_p"] * 0.5)
    case.inputs = [target]
    pool = tvec + cvec
    cexprs, infos = _coord_exprs(rng, namer, case, len(idx), pool, maxlen, P)
    used = set()
    for e, sub in cexprs:
        case.inputs.append(e)
        used.update(v.name for v in sub)
    # update tensor: any subset of the vectorised axes of target and coordinates (+ update-only axes)
    usub = [v for v in pool if rng.random() < 0.65]
    if rng.random() < 0.12:
        v = Var(namer.new(), [draw_size(rng, maxlen)])
        _register(case, [v])
        usub.append(v)
        case.feats.add("update-only-axis")
    case.inputs.append(structure(rng, _atoms(case, rng, perm(rng, usub)), case, P["flat_p"] * 0.4))
    unames = {v.name for v in usub}
    if any(v.name in used and v.name not in unames and not v.unit for v in cvec + tvec):
        case.feats.add("update-lacks-coord-axis")
    if any(v.name not in unames and not v.unit for v in tvec):
        case.feats.add("update-lacks-target-axis")
    if any(v.name in used and v.name not in {t.name for t in tvec} for v in cvec):
        case.feats.add("coord-only-axis")
    if rng.random() < 0.5:
        case.outputs = None
        case.eff_outputs = [copy_expr(target)]
        case.feats.add("implicit-output")
    else:
        case.outputs = [copy_expr(target)]
        case.eff_outputs = case.outputs
    case.note["coord_info"] = infos
    case.note["indexed"] = [v.name for v in idx]
    dt = rng.choice(["float64", "int64"])
    case.dtypes = [dt] + ["int64"] * len(cexprs) + [dt]
    return case, namer


def gen_preserve(rng, P, op=None):
    op = op or rng.choice(PRESERVE_OPS)
    case = _mk(rng, "preserve", op)
    namer = Namer(rng)
    maxlen = P["maxlen"]
    nb = 1 if op in ("sort", "argsort") else rng.choice([0, 1, 1, 2, 2, 3])
    br = make_vars(rng, namer, nb, maxlen, bracket=True, ell_p=0.0 if op in ("sort", "argsort") else P["ell_p"])
    vec = make_vars(rng, namer, rng.randint(0, 3), maxlen, ell_p=P["ell_p"])
    _register(case, br + vec)
    order = perm(rng, br + vec)
    atoms_ = insert_units(rng, _atoms(case, rng, order), case, 0.08)
    if op not in ("sort", "argsort"):
        case.note["br_flat_p"] = P.get("br_flat_p", 0.0)
    case.inputs = [structure(rng, atoms_, case, P["flat_p"])]
    if rng.random() < 0.45 or "bracket-around-flatten" in case.feats:
        case.outputs = None
        case.eff_outputs = [copy_expr(case.inputs[0])]
        case.feats.add("implicit-output")
    else:
        # bracketed axes keep their relative order; vectorised ones may move
        brs = [v for v in order if v.bracket]
        vs = perm(rng, [v for v in order if not v.bracket])
        slots = sorted(rng.sample(range(len(brs) + len(vs)), len(brs))) if brs else []
        out_order, bi, vi = [], 0, 0
        for k in range(len(brs) + len(vs)):
            if k in slots:
                out_order.append(brs[bi]); bi += 1
            else:
                out_order.append(vs[vi]); vi += 1
        case.outputs = [structure(rng, _atoms(case, rng, out_order), case, P["flat_p"])]
        case.eff_outputs = case.outputs
    if op == "roll":
        nbl = sum(len(v.sizes) for v in br)
        if nbl == 0:
            raise Skip()  # Appendix A: roll needs at least one bracketed axis
        if "bracket-around-flatten" in case.feats:
            # one shift per dimension of the elementary sub-tensor
            from .expr import elementary_dims
            nbl = len(elementary_dims(expand(case.inputs[0], case.reps), {l.name: 1 for l in xleaves(expand(case.inputs[0], case.reps))}))
        r = rng.random()
        if r < 0.4 or nbl == 0:
            case.opts["shift"] = rng.randint(-3, 4)
        elif r < 0.7:
            case.opts["shift"] = tuple(rng.randint(-3, 4) for _ in range(nbl))
            case.feats.add("shift-tuple")
        else:
            case.opts["shift"] = [rng.randint(-3, 4) for _ in range(nbl)]
            case.feats.add("shift-list")
    case.dtypes = ["float64"] if op in ("softmax", "log_softmax") else [rng.choice(["float64", "int64"])]
    case.note["distinct"] = op in ("sort", "argsort")
    return case, namer


def gen_argfind(rng, P, op=None):
    op = op or rng.choice(ARGFIND_OPS)
    case = _mk(rng, "argfind", op)
    namer = Namer(rng)
    maxlen = P["maxlen"]
    br = make_vars(rng, namer, rng.choice([1, 1, 2, 2, 3]), maxlen, bracket=True, ell_p=P["ell_p"] * 0.5)
    vec = make_vars(rng, namer, rng.randint(0, 3), maxlen, ell_p=P["ell_p"] * 0.5)
    _register(case, br + vec)
    nb = sum(len(v.sizes) for v in br)
    if nb == 0:
        raise Skip()
    order = perm(rng, br + vec)
    atoms_ = _atoms(case, rng, order)
    case.note["br_flat_p"] = P.get("br_flat_p", 0.0)
    case.inputs = [structure(rng, atoms_, case, P["flat_p"] * 0.7)]
    case.note["br_flat_p"] = 0.0
    if "bracket-around-flatten" in case.feats:
        from .expr import elementary_dims
        xe = expand(case.inputs[0], case.reps)
        nb = len(elementary_dims(xe, {l.name: 1 for l in xleaves(xe)}))
    nbr_nodes = len([n for n in walk(case.inputs[0]) if isinstance(n, Br)])
    if any(isinstance(n, Ell) and any(isinstance(m, Br) for m in walk(n.items)) for n in walk(case.inputs[0])):
        nbr_nodes = 99  # a bracket under an ellipsis is repeated: not "a single bracketed expression"
    r = rng.random()
    if r < 0.35 and nbr_nodes == 1:
        # implicit: the single bracket group is replaced by [n]
        case.outputs = None
        case.eff_outputs = [_replace_bracket(case.inputs[0], Num(nb))]
        case.feats.add("implicit-output")
    else:
        ovs = perm(rng, vec)
        out_atoms = _atoms(case, rng, ovs)
        if nb == 1 and rng.random() < 0.5:
            case.feats.add("argfind-scalar-output")
        else:
            if rng.random() < 0.7:
                b = Num(nb)
            else:
                v = Var(namer.new(), [nb], bracket=True)
                _register(case, [v])
                case.note.setdefault("fixed_vars", set()).add(v.name)  # its length is the number of bracketed axes
                b = Ax(v.name)
                case.feats.add("argfind-named-n")
            out_atoms.insert(rng.randint(0, len(out_atoms)), (b, True))
        case.outputs = [structure(rng, out_atoms, case, P["flat_p"] * 0.5)]
        case.eff_outputs = case.outputs
    if nb > 1:
        case.feats.add("argfind-multi")
    case.dtypes = [rng.choice(["float64", "int64"])]
    case.note["distinct"] = True
    return case, namer


def _replace_bracket(items, new):
    out = []
    for n in items:
        if isinstance(n, Br):
            out.append(Br([new]))
        elif isinstance(n, Ell):
            inner = _replace_bracket(n.items, new)
            if any(isinstance(x, Br) for x in walk(n.items)):
                # [s]... with one bracket node inside an ellipsis: replaced once, ellipsis dropped
                out.extend(inner)
            else:
                out.append(Ell(inner, n.group, n.anon))
        elif isinstance(n, (Flat, Cat)):
            out.append(type(n)(_replace_bracket(n.items, new)))
        else:
            out.append(copy_node(n))
    return out


GEN = {
    "id": gen_id,
    "elementwise": gen_elementwise,
    "reduce": gen_reduce,
    "dot": gen_dot,
    "get_at": gen_get_at,
    "update": gen_update,
    "preserve": gen_preserve,
    "argfind": gen_argfind,
}

DEFAULT_P = {"maxlen": 5, "ell_p": 0.12, "flat_p": 0.25, "br_flat_p": 0.0, "dtype_p": 0.0}


def finalize_case(case, rng, nprng, P):
    """Sizes, numbers, keyword sizes, data."""
    case.note["dtype_p"] = P.get("dtype_p", 0.0)
    # effective explicit brackets for un-bracketed reduce/dot
    case.finish()
    numberize(rng, case, P.get("num_p", 0.2))
    apply_numberized_to_eff(case)
    case.finish()
    if case.family in ("reduce", "dot") and case.outputs is not None and not any(l.bracket for e in case.xin for l in xleaves(e)):
        case.note.setdefault("mark_reduced", [])  # no bracket at all: the un-bracketed mode applies
    if case.note.get("mark_reduced") is not None:
        # un-bracketed reduce/dot: every input axis (named or numeric) that is missing from the output is bracketed
        out_names = {l.tname for e in case.xout for l in xleaves(e)}
        for e in case.xin:
            for l in xleaves(e):
                l.bracket = l.tname not in out_names
    choose_kwargs(rng, case)
    if "bracket-around-flatten" in case.feats:
        _brflat_kwargs(rng, case)
    if not case.dtypes:
        case.dtypes = [rng.choice(["float64", "float64", "int64"]) for _ in case.inputs]
    # data-moving operations work for every dtype: widen the pool there
    if case.family == "id" or (case.family == "preserve" and case.op in ("flip", "roll")):
        case.dtypes = [rng.choice(["float64", "int64", "float32", "int32", "bool"]) if rng.random() < 0.4 else d for d in case.dtypes]
    elif case.family == "get_at" and rng.random() < 0.3:
        case.dtypes[0] = rng.choice(["float32", "int32", "bool"])
        case.feats.add("dtype-variety")
    tensors = []
    for i, (shape, dt) in enumerate(zip(case.in_shapes, case.dtypes)):
        nonzero = case.op in ("true_divide", "floor_divide", "divide") and i == 1
        tensors.append(make_data(rng, shape, dt, nprng, distinct=bool(case.note.get("distinct")), nonzero=nonzero))
    # dtype variety (C01/C09 switch it on with P["dtype_p"]): narrow, unsigned and boolean inputs for operations whose meaning does not depend on it
    if case.note.get("dtype_p", 0.0) > 0 and rng.random() < case.note["dtype_p"] and case.family in ("elementwise", "reduce", "dot", "get_at", "preserve", "id") \
            and case.op not in ("true_divide", "floor_divide", "divide", "logaddexp", "logsumexp", "softmax", "log_softmax", "mean", "var", "std", "where", "prod"):
        if case.family in ("reduce", "dot"):
            # accumulating operations: numpy's accumulator width differs between np.sum (promotes small integers) and np.einsum / matmul (keeps the
            # input dtype and wraps), and R accumulates in float64: only dtypes that hold every partial result exactly
            pool_dt = ["float32", "int32", "int64", "float64"] + (["bool"] if case.op not in ("dot",) else [])
        else:
            pool_dt = ["float32", "int32", "uint8", "int64", "float64", "int16", "uint16"] + (["bool"] if case.op not in ("subtract", "dot", "sort", "argsort", "negative") else [])
        for i, t in enumerate(tensors):
            if case.family == "get_at" and i >= 1:
                continue  # coordinates stay integer indices
            dt = rng.choice(pool_dt)
            tt = np.abs(t) if dt.startswith("u") else t
            tensors[i] = np.asarray(tt).astype(dt)
        case.feats.add("dtype-variety")
    # exp-based operations: slices that lie far apart (hundreds of units) expose a stabilising shift that is not taken per slice
    if case.op in ("logsumexp", "softmax", "log_softmax", "logaddexp") and rng.random() < 0.5:
        for i, t in enumerate(tensors):
            if t.dtype == np.float64 and t.ndim >= 1 and t.size > 1:
                d = rng.randrange(t.ndim)
                offs = np.array([rng.choice([-1500.0, -900.0, 0.0, 0.0, 900.0]) for _ in range(t.shape[d])])
                tensors[i] = t + offs.reshape([-1 if k == d else 1 for k in range(t.ndim)])
                case.feats.add("wide-range-data")
    # coordinates must be valid indices
    if case.family in ("get_at", "update"):
        _fill_coords(case, tensors, nprng)
    case.tensors = tensors
    return case


def _brflat_groups(case):
    """Names inside every Br([Flat(..)]) group of the description."""
    groups = []
    for e in list(case.inputs) + list(case.outputs or []):
        for n in walk(e):
            if isinstance(n, Br) and len(n.items) == 1 and isinstance(n.items[0], Flat):
                at_root = any(n is r for r in e)
                groups.append((at_root, [m.name for m in walk(n.items[0].items) if isinstance(m, Ax)]))
    return groups


def _brflat_kwargs(rng, case):
    """A bracketed parenthesised group is one dimension whose total is known from the shape: the sizes of its
    inner axes are not needed. With probability 1/2 they are withheld (feature brflat-inner-sizes-omitted);
    otherwise they stay (feature brflat-inner-sizes-given)."""
    counts = {}
    for e in list(case.inputs) + list(case.outputs or []):
        for n in walk(e):
            if isinstance(n, Ax):
                counts[n.name] = counts.get(n.name, 0) + 1
    given = False
    for at_root, names in _brflat_groups(case):
        # only a group that is a whole dimension of the tensor has its total fixed by the shape alone
        only_here = at_root and all(counts.get(nm, 0) == 1 for nm in names)
        if only_here and rng.random() < 0.5:
            for nm in names:
                case.kwargs.pop(nm, None)
        if any(nm in case.kwargs for nm in names) or not only_here:
            given = True
    case.feats.add("brflat-inner-sizes-given" if given else "brflat-inner-sizes-omitted")


def _fill_coords(case, tensors, nprng):
    """Coordinate tensors hold in-range indices for the indexed axes (in order of appearance)."""
    tx = case.xin[0]
    idx_sizes = [case.sizes[l.name] for l in xleaves(tx) if l.bracket]
    ncoord = len(case.inputs) - (2 if case.family == "update" else 1)
    pos = 0
    for ci in range(ncoord):
        e = case.xin[1 + ci]
        leaves = list(xleaves(e))
        bpos = [i for i, l in enumerate(leaves) if l.bracket]
        shape = case.in_shapes[1 + ci]
        if not bpos:
            hi = idx_sizes[pos]
            tensors[1 + ci] = nprng.integers(0, hi, size=shape).astype(np.int64)
            pos += 1
        else:
            # generate per component then place along the bracketed leaf; the coordinate expression may be
            # flattened, so build in leaf space and reshape
            lshape = [case.sizes[l.name] for l in leaves]
            k = lshape[bpos[0]]
            arr = np.zeros(lshape, dtype=np.int64)
            for c in range(k):
                sl = [slice(None)] * len(lshape)
                sl[bpos[0]] = c
                sub_shape = [s for i, s in enumerate(lshape) if i != bpos[0]]
                arr[tuple(sl)] = nprng.integers(0, idx_sizes[pos + c], size=sub_shape)
            pos += k
            tensors[1 + ci] = arr.reshape(shape)
    assert pos == len(idx_sizes)


def generate(rng, nprng, family=None, P=None, op=None, tries=200):
    P = dict(DEFAULT_P, **(P or {}))
    for _ in range(tries):
        fam = family or rng.choice(FAMILIES)
        try:
            if op is not None and fam in ("elementwise", "reduce", "preserve", "argfind", "update"):
                case, namer = GEN[fam](rng, P, op)
            else:
                case, namer = GEN[fam](rng, P)
            return finalize_case(case, rng, nprng, P)
        except Skip:
            continue
    raise RuntimeError("generator failed to produce a case")


def risk(case):
    """Purely structural input classes with a hand-confirmed einx defect (keys of known findings).
    multi-bracket-in-flatten: two adjacent bracketed axes inside a flattened axis (CSE merges them).
    equal-numbers-in-groups: two different numeric axes of equal value inside parenthesised groups (CSE
    identifies sub-expressions by their printed text and conflates them)."""
    tags = []
    if "multi-bracket-in-flatten" in case.feats:
        tags.append("multi-bracket-in-flatten")
    if "brflat-inner-sizes-given" in case.feats:
        tags.append("bracket-around-flatten-with-inner-sizes")
    if case.op in ("sum", "dot") and case.tensors is not None and any(getattr(t, "dtype", None) == np.bool_ for t in case.tensors):
        tags.append("bool-sum")
    seen = {}

    def rec(items, depth):
        for n in items:
            if isinstance(n, Num) and depth > 0:
                seen.setdefault(n.value, set()).add(n.uid)
            elif isinstance(n, (Flat, Cat)):
                rec(n.items, depth + 1)
            elif isinstance(n, (Br, Ell)):
                rec(n.items, depth)

    for e in list(case.inputs) + list(case.outputs or []):
        rec(e, 0)
    if any(len(u) > 1 for u in seen.values()):
        tags.append("equal-numbers-in-groups")
    return "+".join(tags)
