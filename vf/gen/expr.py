"""G's own expression AST for einx notation (never parsed by einx's parser), its printer, the
expansion of ellipses, and shape computation.

Template nodes (what is printed):
    Ax(name)            named axis
    Num(value, uid)     numeric axis; every occurrence is its own axis (uid makes it unique)
    Flat(items)         ( ... )      flattened axis (row-major)
    Cat(items)          ( x + y )    concatenated axis; items are Ax | Num | Flat
    Br(items)           [ ... ]      brackets
    Ell(items, group, anon)   body...    ellipsis; repeated reps[group] times

Expanded nodes (what has a meaning): Leaf(name, bracket) | XFlat(items) | XCat(items).
A tensor expression is a Python list of nodes (the root list). Brackets become a flag on leaves.
"""

import itertools
import math


class Node:
    pass


class Ax(Node):
    __slots__ = ("name",)

    def __init__(self, name):
        self.name = name


class Num(Node):
    __slots__ = ("value", "uid")
    _counter = itertools.count()

    def __init__(self, value, uid=None):
        self.value = value
        self.uid = uid if uid is not None else f"_n{next(Num._counter)}"


class Flat(Node):
    __slots__ = ("items",)

    def __init__(self, items):
        self.items = list(items)


class Cat(Node):
    __slots__ = ("items",)

    def __init__(self, items):
        self.items = list(items)


class Br(Node):
    __slots__ = ("items",)

    def __init__(self, items):
        self.items = list(items)


class Ell(Node):
    __slots__ = ("items", "group", "anon")

    def __init__(self, items, group, anon=False):
        self.items = list(items)
        self.group = group
        self.anon = anon


# ------------------------------------------------------------------ printing


def pr_node(n):
    if isinstance(n, Ax):
        return n.name
    if isinstance(n, Num):
        return str(n.value)
    if isinstance(n, Flat):
        return "(" + pr(n.items) + ")"
    if isinstance(n, Cat):
        return "(" + " + ".join(pr_node(c) for c in n.items) + ")"
    if isinstance(n, Br):
        return "[" + pr(n.items) + "]"
    if isinstance(n, Ell):
        if n.anon:
            return "..."
        assert len(n.items) == 1, "an ellipsis applies to exactly one preceding sub-expression"
        return pr_node(n.items[0]) + "..."
    raise TypeError(n)


def pr(items):
    return " ".join(pr_node(n) for n in items)


def pr_desc(inputs, outputs=None):
    s = ", ".join(pr(e) for e in inputs)
    if outputs is not None:
        s += " -> " + ", ".join(pr(e) for e in outputs)
    return s


def copy_node(n, ren=None):
    """Deep copy; `ren` optionally maps axis names."""
    if isinstance(n, Ax):
        return Ax(ren.get(n.name, n.name) if ren else n.name)
    if isinstance(n, Num):
        return Num(n.value, n.uid)
    if isinstance(n, Flat):
        return Flat([copy_node(c, ren) for c in n.items])
    if isinstance(n, Cat):
        return Cat([copy_node(c, ren) for c in n.items])
    if isinstance(n, Br):
        return Br([copy_node(c, ren) for c in n.items])
    if isinstance(n, Ell):
        return Ell([copy_node(c, ren) for c in n.items], n.group, n.anon)
    raise TypeError(n)


def copy_expr(items, ren=None):
    return [copy_node(n, ren) for n in items]


def walk(items):
    for n in items:
        yield n
        if isinstance(n, (Flat, Cat, Br, Ell)):
            yield from walk(n.items)


def template_axis_names(items):
    return [n.name for n in walk(items) if isinstance(n, Ax)]


# ------------------------------------------------------------------ expansion


class Leaf(Node):
    __slots__ = ("name", "bracket", "tname", "isnum", "eg")

    def __init__(self, name, bracket, tname=None, isnum=False, eg=None):
        self.name = name  # expanded name, e.g. "s.0"
        self.bracket = bracket
        self.tname = tname or name  # template name, e.g. "s"
        self.isnum = isnum
        self.eg = eg  # elementary-dimension group: bracketed leaves inside one parenthesised group under a bracket share it


class XFlat(Node):
    __slots__ = ("items",)

    def __init__(self, items):
        self.items = items


class XCat(Node):
    __slots__ = ("items",)

    def __init__(self, items):
        self.items = items


ANON = "_anon"


_eg_counter = itertools.count(1)


def expand(items, reps, suffix="", bracket=False, eg=None):
    """Template list -> expanded list (ellipses written out, brackets turned into leaf flags).
    A parenthesised group that sits *inside* a bracket is one dimension of the elementary operation:
    its leaves share an elementary-group id (`eg`)."""
    out = []
    for n in items:
        if isinstance(n, Ax):
            out.append(Leaf(n.name + suffix, bracket, n.name, eg=eg))
        elif isinstance(n, Num):
            out.append(Leaf(n.uid + suffix, bracket, n.uid, isnum=True, eg=eg))
        elif isinstance(n, Flat):
            g = eg
            if bracket and g is None:
                g = next(_eg_counter)
            out.append(XFlat(expand(n.items, reps, suffix, bracket, g)))
        elif isinstance(n, Cat):
            ch = []
            for c in n.items:
                e = expand([c], reps, suffix, bracket, eg)
                assert len(e) == 1
                ch.append(e[0])
            out.append(XCat(ch))
        elif isinstance(n, Br):
            out.extend(expand(n.items, reps, suffix, True, eg))
        elif isinstance(n, Ell):
            body = [Ax(ANON)] if n.anon else n.items
            for i in range(reps[n.group]):
                out.extend(expand(body, reps, f"{suffix}.{i}", bracket, eg))
        else:
            raise TypeError(n)
    return out


def elementary_dims(xitems, sizes):
    """Sizes of the dimensions of the elementary operation's sub-tensor (bracketed leaves; leaves of one
    parenthesised group under a bracket form one dimension)."""
    dims = []
    last = object()
    for l in xleaves(xitems):
        if not l.bracket:
            continue
        if l.eg is not None and l.eg == last:
            dims[-1] *= sizes[l.name]
        else:
            dims.append(sizes[l.name])
        last = l.eg if l.eg is not None else object()
    return dims


def xleaves(items):
    for n in items:
        if isinstance(n, Leaf):
            yield n
        else:
            yield from xleaves(n.items)


def xvalue(n, sizes):
    if isinstance(n, Leaf):
        return sizes[n.name]
    if isinstance(n, XFlat):
        return math.prod(xvalue(c, sizes) for c in n.items)
    if isinstance(n, XCat):
        return sum(xvalue(c, sizes) for c in n.items)
    raise TypeError(n)


def xshape(items, sizes):
    return tuple(xvalue(n, sizes) for n in items)


def num_sizes(items, sizes):
    """Adds the sizes of numeric leaves (their template uid -> value) for an expanded expr."""
    return sizes


def has_cat(items):
    return any(isinstance(n, (Cat, XCat)) for n in walk_any(items))


def walk_any(items):
    for n in items:
        yield n
        if hasattr(n, "items"):
            yield from walk_any(n.items)


def strip_redundant_parens(items):
    """'((k o))' and '(k o)' are the same expression: collapse parenthesised groups whose only child is a parenthesised group."""
    res = []
    for n in items:
        if isinstance(n, Flat):
            inner = strip_redundant_parens(n.items)
            while len(inner) == 1 and isinstance(inner[0], Flat):
                inner = inner[0].items
            res.append(Flat(inner))
        elif isinstance(n, (Br, Cat)):
            res.append(type(n)(strip_redundant_parens(n.items)))
        elif isinstance(n, Ell):
            res.append(Ell(strip_redundant_parens(n.items), n.group, n.anon))
        else:
            res.append(n)
    return res
