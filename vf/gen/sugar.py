"""Sugar / desugar pairs for C07: each function takes a generated Case and returns a list of
(label, short_call, long_call) where a call is a dict {fn, desc, tensors, kwargs, post}.
`post` maps the result to the common form in which the two are compared."""
import copy

import numpy as np

from .expr import Ax, Num, Flat, Cat, Br, Ell, pr, pr_desc, copy_expr, copy_node, walk, ANON


def _call(case, inputs=None, outputs="same", tensors=None, kwargs=None, opts=None, fn=None, post=None, desc=None):
    ins = case.inputs if inputs is None else inputs
    outs = case.outputs if outputs == "same" else outputs
    return {
        "fn": fn or case.op,
        "desc": desc if desc is not None else pr_desc(ins, outs),
        "tensors": case.tensors if tensors is None else tensors,
        "kwargs": dict(case.kwargs if kwargs is None else kwargs),
        "opts": dict(case.opts if opts is None else opts),
        "post": post,
    }


def map_expr(items, f):
    """Rebuild a template list; f(node) may return a replacement list of nodes or None (recurse)."""
    out = []
    for n in items:
        r = f(n)
        if r is not None:
            out.extend(r)
        elif isinstance(n, (Flat, Cat, Br)):
            out.append(type(n)(map_expr(n.items, f)))
        elif isinstance(n, Ell):
            out.append(Ell(map_expr(n.items, f), n.group, n.anon))
        else:
            out.append(copy_node(n))
    return out


def _fresh(case, base, taken):
    i = 0
    while True:
        n = f"{base}{i}"
        if n not in case.var_sizes and n not in taken:
            taken.add(n)
            return n
        i += 1


# ------------------------------------------------------------------ individual rules


def numbers_to_names(case):
    """number = fresh named axis + keyword (every numeric axis, consistently across copies by uid)."""
    nums = {}
    under_ell = set()

    def scan(items, in_ell):
        for n in items:
            if isinstance(n, Num):
                nums[n.uid] = n.value
                if in_ell:
                    under_ell.add(n.uid)
            elif isinstance(n, Ell):
                scan(n.items, True)
            elif isinstance(n, (Flat, Cat, Br)):
                scan(n.items, in_ell)

    for e in list(case.inputs) + list(case.outputs or []):
        scan(e, False)
    if not nums or under_ell:
        return []
    if case.family == "elementwise" and case.outputs is None:
        return []  # the implicit-output rule treats a literal 1 differently from a named axis of length 1
    taken = set()
    names = {uid: _fresh(case, "nn", taken) for uid in nums}

    def f(n):
        if isinstance(n, Num):
            return [Ax(names[n.uid])]
        return None

    ins = [map_expr(e, f) for e in case.inputs]
    outs = None if case.outputs is None else [map_expr(e, f) for e in case.outputs]
    kw = dict(case.kwargs)
    for uid, v in nums.items():
        kw[names[uid]] = v
    # a number that occurs in input and (explicit) output is two different axes; as one name it would be one axis.
    # Only the implicit-output copy shares the uid, and there the explicit form is not printed. Numbers occurring
    # once are always safe.
    counts = {}
    for e in list(case.inputs) + list(case.outputs or []):
        for n in walk(e):
            if isinstance(n, Num):
                counts[n.uid] = counts.get(n.uid, 0) + 1
    if any(c > 1 for c in counts.values()):
        return []
    return [("number-vs-named-axis", _call(case), _call(case, ins, outs, kwargs=kw))]


def implicit_vs_explicit(case):
    """omitted output = the per-operation default output (numbers shared with the input become names)."""
    if case.outputs is not None:
        return []
    nums = {}
    for e in case.inputs:
        for n in walk(e):
            if isinstance(n, Num):
                nums[n.uid] = n.value
    if any(isinstance(n, Ell) and any(isinstance(m, Num) for m in walk(n.items)) for e in case.inputs for n in walk(e)):
        return []
    taken = set()
    names = {uid: _fresh(case, "nn", taken) for uid in nums}
    shared = {n.uid for e in case.eff_outputs for n in walk(e) if isinstance(n, Num) and n.uid in nums}

    def f(n):
        if isinstance(n, Num) and n.uid in shared:
            return [Ax(names[n.uid])]
        return None

    ins = [map_expr(e, f) for e in case.inputs]
    outs = [map_expr(e, f) for e in case.eff_outputs]
    kw = dict(case.kwargs)
    for uid in shared:
        kw[names[uid]] = nums[uid]
    opts = dict(case.opts)
    if opts.pop("keepdims", None):
        # the effective output already holds the unit axes; '()...' for a bracket under an ellipsis has no determinable rank
        if any(isinstance(n, Ell) and any(isinstance(m, Br) for m in walk(n.items)) for e in case.inputs for n in walk(e)):
            return []
    return [("implicit-vs-explicit-output", _call(case), _call(case, ins, outs, kwargs=kw, opts=opts))]


def unbracketed_vs_bracketed(case):
    """un-bracketed reduction/dot = brackets around the axes missing from the output."""
    if case.note.get("mark_reduced") is None or case.outputs is None:
        return []
    out_names = set()
    for e in case.outputs:
        for n in walk(e):
            if isinstance(n, Ax):
                out_names.add(n.name)

    def f(n):
        if isinstance(n, Ax) and n.name not in out_names:
            return [Br([Ax(n.name)])]
        if isinstance(n, Num):
            return [Br([Num(n.value, n.uid)])]
        return None

    if any(isinstance(n, (Br, Ell)) for e in case.inputs for n in walk(e)):
        return []
    ins = [map_expr(e, f) for e in case.inputs]
    if not any(isinstance(n, Br) for e in ins for n in walk(e)):
        return []
    return [("unbracketed-vs-bracketed", _call(case), _call(case, ins))]


def ellipsis_vs_written_out(case):
    """an ellipsis = its written-out repetition; tuple sizes = one keyword per repetition."""
    if not case.reps:
        return []
    if case.opts.get("keepdims") and any(r == 0 for r in case.reps.values()):
        return []  # keepdims counts bracket expressions; a bracket emptied by a zero-repetition ellipsis cannot be written out
    taken = set()
    newname = {}

    def expand(items, suffix=""):
        out = []
        for n in items:
            if isinstance(n, Ell):
                if n.anon:
                    for i in range(case.reps[n.group]):
                        out.append(Ax(newname.setdefault((ANON, f"{suffix}.{i}"), _fresh(case, "an", taken))))
                else:
                    for i in range(case.reps[n.group]):
                        out.extend(expand(n.items, f"{suffix}.{i}"))
            elif isinstance(n, Ax):
                if suffix:
                    out.append(Ax(newname.setdefault((n.name, suffix), _fresh(case, n.name.replace("_", "") + "r", taken))))
                else:
                    out.append(Ax(n.name))
            elif isinstance(n, Num):
                out.append(Num(n.value, n.uid + suffix))
            elif isinstance(n, (Flat, Cat, Br)):
                out.append(type(n)(expand(n.items, suffix)))
            else:
                raise TypeError(n)
        return out

    ins = [expand(e) for e in case.inputs]
    outs = None if case.outputs is None else [expand(e) for e in case.outputs]
    kw = {}
    for k, v in case.kwargs.items():
        reps_names = [(s, nn) for (n, s), nn in newname.items() if n == k]
        if not reps_names and case.var_group.get(k) is None:
            kw[k] = v
            continue
        for s, nn in reps_names:
            idx = [int(t) for t in s.split(".") if t]
            kw[nn] = int(v[idx[-1]]) if isinstance(v, (tuple, list)) else int(v)
    if case.outputs is None and case.family in ("argfind", "elementwise"):
        return []  # implicit-output rules are syntactic (single bracket expression / unique superset input)
    return [("ellipsis-vs-written-out", _call(case), _call(case, ins, outs, kwargs=kw))]


def scalar_vs_tuple_size(case):
    out = []
    for k, v in case.kwargs.items():
        vs = case.var_sizes.get(k)
        if case.var_group.get(k) is not None and not isinstance(v, (tuple, list)) and vs is not None and len(vs) >= 1:
            kw = dict(case.kwargs)
            kw[k] = tuple(int(v) for _ in vs)
            out.append(("scalar-vs-tuple-size", _call(case), _call(case, kwargs=kw)))
            break
    return out


def named_vs_anonymous_ellipsis(case):
    """an anonymous '...' = one shared named ellipsis."""
    cands = {}
    bad = set()

    def scan(items, in_ell):
        for n in items:
            if isinstance(n, Ell):
                if len(n.items) == 1 and isinstance(n.items[0], Ax) and not in_ell and not n.anon:
                    cands.setdefault(n.items[0].name, 0)
                    cands[n.items[0].name] += 1
                else:
                    for m in walk(n.items):
                        if isinstance(m, Ax):
                            bad.add(m.name)
                    if n.anon:
                        bad.add(ANON)
                scan(n.items, True) if not (len(n.items) == 1 and isinstance(n.items[0], Ax)) else None
            elif isinstance(n, Ax):
                if not in_ell:
                    bad.add(n.name)
            elif isinstance(n, (Flat, Cat, Br)):
                scan(n.items, in_ell)

    for e in list(case.inputs) + list(case.outputs or []):
        scan(e, False)
    if ANON in bad:
        return []
    names = [n for n in cands if n not in bad and n not in case.kwargs]
    if not names:
        return []
    name = names[0]

    def f(n):
        if isinstance(n, Ell) and len(n.items) == 1 and isinstance(n.items[0], Ax) and n.items[0].name == name:
            return [Ell([], n.group, anon=True)]
        return None

    ins = [map_expr(e, f) for e in case.inputs]
    outs = None if case.outputs is None else [map_expr(e, f) for e in case.outputs]
    return [("anonymous-vs-named-ellipsis", _call(case, ins, outs), _call(case))]


def adjacent_brackets(case):
    """adjacent brackets = one bracket (merge runs of sibling Br nodes / split a Br into singles)."""
    changed = [False]

    def merge(items):
        out = []
        for n in items:
            if isinstance(n, Br):
                inner = merge(n.items)
                if out and isinstance(out[-1], Br):
                    out[-1] = Br(out[-1].items + inner)
                    changed[0] = True
                else:
                    out.append(Br(inner))
            elif isinstance(n, (Flat, Cat)):
                out.append(type(n)(merge(n.items)))
            elif isinstance(n, Ell):
                out.append(Ell(merge(n.items), n.group, n.anon))
            else:
                out.append(copy_node(n))
        return out

    def split(items):
        out = []
        for n in items:
            if isinstance(n, Br):
                if len(n.items) > 1:
                    changed[0] = True
                for c in n.items:
                    out.append(Br(split([c])))
            elif isinstance(n, (Flat, Cat)):
                out.append(type(n)(split(n.items)))
            elif isinstance(n, Ell):
                out.append(Ell(split(n.items), n.group, n.anon))
            else:
                out.append(copy_node(n))
        return out

    res = []
    if case.opts.get("keepdims") or (case.family == "argfind" and case.outputs is None):
        return []  # keepdims counts brackets; the implicit argmax output needs a single bracket expression
    for label, tf in (("merged", merge), ("split", split)):
        changed[0] = False
        ins = [tf(e) for e in case.inputs]
        outs = None if case.outputs is None else [tf(e) for e in case.outputs]
        if changed[0]:
            # an ellipsis applies to exactly one sub-expression: [a]... must not become [a]... merged with a neighbour
            ok = all(len(n.items) == 1 or n.anon for e in ins + (outs or []) for n in walk(e) if isinstance(n, Ell))
            if ok:
                res.append((f"adjacent-brackets-{label}", _call(case), _call(case, ins, outs)))
    return res


def keepdims_vs_parentheses(case):
    """keepdims=True = wrapping each bracket in parentheses (implicit output)."""
    if not case.opts.get("keepdims") or case.outputs is not None:
        return []

    def f(n):
        if isinstance(n, Br):
            return [Flat([Br(copy_expr(n.items))])]
        return None

    if any(isinstance(n, Ell) and any(isinstance(m, Br) for m in walk(n.items)) for e in case.inputs for n in walk(e)):
        return []
    # parentheses flatten: the equivalence is documented for a bracket around a single axis
    if any(isinstance(n, Br) and not (len(n.items) == 1 and isinstance(n.items[0], (Ax, Num))) for e in case.inputs for n in walk(e)):
        return []
    ins = [map_expr(e, f) for e in case.inputs]
    opts = dict(case.opts)
    opts.pop("keepdims")
    # the equivalence when the very same description was first used WITHOUT keepdims (the flag is a per-call argument); this pair comes first so
    # that the plain call really is the first use of the description in the process
    first = _call(case)
    first["pre"] = [_call(case, opts=opts)]
    return [("keepdims-after-plain-call", first, _call(case, ins, None, opts=opts)), ("keepdims-vs-parentheses", _call(case), _call(case, ins, None, opts=opts))]


def extra_spaces(case, rng):
    d = case.desc()
    toks = []
    i = 0
    while i < len(d):
        if d.startswith("->", i):
            toks.append(" " * rng.randint(1, 3) + "->" + " " * rng.randint(1, 3))
            i += 2
        elif d[i] == ",":
            toks.append(" " * rng.randint(0, 2) + "," + " " * rng.randint(1, 3))
            i += 1
        elif d[i] == " ":
            toks.append(" " * rng.randint(1, 3))
            i += 1
        elif d[i] in "([":
            toks.append(d[i] + " " * rng.randint(0, 2))
            i += 1
        elif d[i] in ")]":
            # never put a space before '...'
            toks.append(" " * rng.randint(0, 2) + d[i])
            i += 1
        elif d[i] == "+":
            toks.append(" " * rng.randint(0, 2) + "+" + " " * rng.randint(0, 2))
            i += 1
        else:
            toks.append(d[i])
            i += 1
    d2 = " " * rng.randint(0, 2) + "".join(toks) + " " * rng.randint(0, 2)
    # '( ...' / '...' adjacency: a space directly before '...' changes the meaning -> undo those
    while " ..." in d2 and " ..." not in d:
        d2 = d2.replace(" ...", "...")
    if d2 == d:
        return []
    return [("extra-spaces", _call(case, desc=d2), _call(case))]


def rearrange_vs_id(case):
    if case.family != "id":
        return []
    return [("rearrange-vs-id", _call(case, fn="rearrange"), _call(case))]


def unit_coordinate_bracket(case):
    """a length-1 coordinate bracket in get_at / *_at = no bracket (data indexed with [..., 0])."""
    if case.family not in ("get_at", "update"):
        return []
    ncoord = len(case.inputs) - (2 if case.family == "update" else 1)
    for ci in range(1, 1 + ncoord):
        e = case.inputs[ci]
        # a root-level bracket holding exactly one axis of length 1
        for pos, n in enumerate(e):
            if isinstance(n, Br) and len(n.items) == 1 and isinstance(n.items[0], (Ax, Num)):
                a = n.items[0]
                size = a.value if isinstance(a, Num) else case.var_sizes[a.name][0]
                if size != 1 or (isinstance(a, Ax) and (a.name in case.kwargs or case.var_group.get(a.name) is not None)):
                    continue
                # position of this root dim in the tensor
                dim = 0
                ok = True
                for m in e[:pos]:
                    if isinstance(m, Ell):
                        ok = False
                    dim += 1
                if not ok:
                    continue
                ins = [copy_expr(x) for x in case.inputs]
                del ins[ci][pos]
                tensors = list(case.tensors)
                tensors[ci] = np.take(np.asarray(case.tensors[ci]), 0, axis=dim)
                return [("unit-coordinate-bracket", _call(case), _call(case, ins, tensors=tensors))]
    return []


def argfind_unit_bracket(case):
    """argmax/argmin: output [1] = no bracket, with result[..., 0] at that position."""
    if case.family != "argfind" or case.outputs is None:
        return []
    e = case.outputs[0]
    for pos, n in enumerate(e):
        if isinstance(n, Br) and len(n.items) == 1 and isinstance(n.items[0], Num) and n.items[0].value == 1:
            if any(isinstance(m, Ell) for m in e[:pos]):
                return []
            outs = [copy_expr(e)]
            del outs[0][pos]
            return [("argfind-unit-bracket", _call(case, post=lambda r, pos=pos: np.take(np.asarray(r), 0, axis=pos)), _call(case, outputs=outs))]
    return []


def nested_arrow(case):
    """nested '->' = its top-level distribution: 'P (X -> Y) S' == 'P (X) S -> P (Y) S' (also with brackets)."""
    if case.outputs is None or len(case.inputs) != 1 or len(case.outputs) != 1:
        return []
    a, b = case.inputs[0], case.outputs[0]
    # longest common prefix / suffix by printed form
    p = 0
    while p < min(len(a), len(b)) and pr([a[p]]) == pr([b[p]]) and not _has_num(a[p]):
        p += 1
    s = 0
    while s < min(len(a), len(b)) - p and pr([a[-1 - s]]) == pr([b[-1 - s]]) and not _has_num(a[-1 - s]):
        s += 1
    ma, mb = a[p:len(a) - s], b[p:len(b) - s]
    if p + s == 0:
        return []
    res = []
    if len(ma) == 1 and len(mb) == 1 and type(ma[0]) is type(mb[0]) and isinstance(ma[0], (Flat, Br)):
        o, c = ("(", ")") if isinstance(ma[0], Flat) else ("[", "]")
        mid = f"{o}{pr(ma[0].items)} -> {pr(mb[0].items)}{c}"
    else:
        # at the root level the middle part is written with the arrow between the two halves only if nothing
        # else needs grouping: "P X -> Y S" is not a nested arrow; skip
        return []
    d = " ".join(x for x in [pr(a[:p]), mid, pr(a[len(a) - s:])] if x)
    return [("nested-arrow", _call(case, desc=d), _call(case))]


def _has_num(n):
    return any(isinstance(m, Num) for m in walk([n]))


def ambiguous_implicit_output(case):
    """documented: 'einx.add("a b, b a")  # Raises exception: Cannot determine output expression' - dropping the
    output of an element-wise call whose inputs do not contain a unique superset expression must be rejected."""
    if case.family != "elementwise" or case.outputs is None or len(case.inputs) < 2:
        return []

    def names_of(e):
        return {n.name for n in walk(e) if isinstance(n, Ax)} | {n.uid for n in walk(e) if isinstance(n, Num) and n.value != 1}

    ns = [names_of(e) for e in case.inputs]
    from .expr import strip_redundant_parens
    texts = [pr(strip_redundant_parens(e)) for e in case.inputs]  # inputs that differ only by redundant parentheses are the same expression
    parents = [i for i in range(len(ns)) if all(ns[j] <= ns[i] for j in range(len(ns)) if j != i)]
    if len(parents) == 0 or len({texts[i] for i in parents}) > 1:
        return [("ambiguous-implicit-output-rejected", _call(case, outputs=None), "MUST-RAISE:SemanticError")]
    return []


ALL = [ambiguous_implicit_output, numbers_to_names, implicit_vs_explicit, unbracketed_vs_bracketed, ellipsis_vs_written_out, scalar_vs_tuple_size, named_vs_anonymous_ellipsis, adjacent_brackets,
       keepdims_vs_parentheses, rearrange_vs_id, unit_coordinate_bracket, argfind_unit_bracket, nested_arrow]


def pairs(case, rng):
    out = []
    for f in ALL:
        try:
            out.extend(f(case))
        except Exception as e:  # a transform that cannot handle this structure yields nothing
            out.append(("__transform_error__", {"name": f.__name__, "err": repr(e)[:200]}, None))
    try:
        out.extend(extra_spaces(case, rng))
    except Exception as e:
        out.append(("__transform_error__", {"name": "extra_spaces", "err": repr(e)[:200]}, None))
    return out


def constructed_nested(rng, nprng):
    """Pairs built from scratch for the nested '->' and ',' rule (G's random structures rarely share a prefix
    and suffix between input and output): 'P [X -> Y] S' == 'P [X] S -> P [Y] S', 'P (X , Y -> Z) S' == ..."""
    names = ["a", "b", "c", "d", "e", "f", "g", "h"]
    rng.shuffle(names)
    sz = {n: rng.choice([1, 2, 2, 3, 4]) for n in names}
    P = names[: rng.randint(0, 2)]
    S = names[2: 2 + rng.randint(0, 2)]
    u, v, w = names[4], names[5], names[6]
    pre = " ".join(P)
    suf = " ".join(S)

    def join(*parts):
        return " ".join(x for x in parts if x)

    def shape(axes):
        return tuple(sz[n] for n in axes)

    def data(axes):
        return nprng.integers(-4, 9, size=shape(axes)).astype(np.float64)

    def mk(fn, desc, tensors, kwargs=None):
        return {"fn": fn, "desc": desc, "tensors": tensors, "kwargs": kwargs or {}, "opts": {}, "post": None}

    out = []
    kind = rng.choice(["reduce", "preserve", "id-flat", "elementwise-comma", "get_at-comma", "argmax"])
    if kind == "reduce":
        op = rng.choice(["sum", "max", "prod", "mean"])
        x = data(P + [u, v] + S)
        out.append(("nested-arrow", mk(op, join(pre, f"[{u} ->]", v, suf), [x]), mk(op, f"{join(pre, f'[{u}]', v, suf)} -> {join(pre, v, suf)}", [x])))
    elif kind == "preserve":
        op = rng.choice(["softmax", "flip", "sort"])
        x = nprng.permutation(int(np.prod(shape(P + [u] + S)))).reshape(shape(P + [u] + S)).astype(np.float64)
        out.append(("nested-arrow", mk(op, join(pre, f"[{u} -> {u}]", suf), [x]), mk(op, f"{join(pre, f'[{u}]', suf)} -> {join(pre, f'[{u}]', suf)}", [x])))
    elif kind == "id-flat":
        x = data(P + [u, v] + S).reshape(shape(P) + (sz[u] * sz[v],) + shape(S))
        out.append(("nested-arrow", mk("id", join(pre, f"({u} {v} -> {v} {u})", suf), [x], {u: sz[u]}), mk("id", f"{join(pre, f'({u} {v})', suf)} -> {join(pre, f'({v} {u})', suf)}", [x], {u: sz[u]})))
    elif kind == "elementwise-comma":
        op = rng.choice(["add", "multiply", "subtract", "maximum"])
        x, y = data(P + [u] + S), data(P + [v] + S)
        out.append(("nested-comma", mk(op, join(pre, f"({u}, {v} -> {u} {v})", suf), [x, y]), mk(op, f"{join(pre, f'({u})', suf)}, {join(pre, f'({v})', suf)} -> {join(pre, f'({u} {v})', suf)}", [x, y])))
    elif kind == "get_at-comma":
        x = data(P + [u] + S)
        idx = nprng.integers(0, sz[u], size=shape(P + S))
        out.append(("nested-comma", mk("get_at", join(pre, f"[{u}, ->]", suf), [x, idx]), mk("get_at", f"{join(pre, f'[{u}]', suf)}, {join(pre, suf)} -> {join(pre, suf)}", [x, idx])))
    else:
        op = rng.choice(["argmax", "argmin"])
        x = nprng.permutation(int(np.prod(shape(P + [u, v] + S)))).reshape(shape(P + [u, v] + S)).astype(np.float64)
        out.append(("nested-arrow", mk(op, join(pre, f"[{u} {v} -> 2]", suf), [x]), mk(op, f"{join(pre, f'[{u} {v}]', suf)} -> {join(pre, '[2]', suf)}", [x])))
    return out
