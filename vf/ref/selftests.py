"""Self-tests of the reference models on hand-written cases with known answers (run by setup_cmd).
The models are tested against numpy one-liners / hand-solved systems / hand-built graphs, never
against einx."""
import numpy as np


def _leafs(names, br=()):
    from ..gen.expr import Leaf
    return [Leaf(n, n in br) for n in names]


def run():
    from ..gen.expr import Leaf, XFlat, XCat, Ax, Num, Flat, Cat, Br, Ell, expand, xshape, pr
    from . import loops as R
    from . import solver as S
    fails = []

    def check(name, cond):
        if not cond:
            fails.append(name)
            print("SELFTEST FAILED:", name)

    rng = np.random.default_rng(0)
    # ---- R: id / transpose / flatten / concat / diagonal / broadcast
    x = rng.integers(-5, 5, size=(2, 3, 4)).astype(float)
    sizes = {"a": 2, "b": 3, "c": 4, "d": 2}
    out = R.ref_id([_leafs("abc")], [[Leaf("c", False), XFlat(_leafs("ba"))]], [x], sizes)[0]
    check("R id a b c -> c (b a)", np.array_equal(out, x.transpose(2, 1, 0).reshape(4, 6)))
    y = rng.integers(-5, 5, size=(5, 4)).astype(float)
    z = rng.integers(-5, 5, size=(3, 4)).astype(float)
    sz = {"a": 5, "b": 3, "c": 4}
    out = R.ref_id([_leafs("ac"), _leafs("bc")], [[XCat([Leaf("a", False), Leaf("b", False)]), Leaf("c", False)]], [y, z], sz)[0]
    check("R id concat", np.array_equal(out, np.concatenate([y, z], axis=0)))
    outs = R.ref_id([[XCat([Leaf("a", False), Leaf("b", False)]), Leaf("c", False)]], [_leafs("ca"), _leafs("bc")], [np.concatenate([y, z], 0)], sz)
    check("R id split", np.array_equal(outs[0], y.T) and np.array_equal(outs[1], z))
    w = rng.integers(-5, 5, size=(3, 2, 3, 4)).astype(float)
    out = R.ref_id([_leafs("aeac".replace("c", "d"))], [_leafs("ade")], [w], {"a": 3, "e": 2, "d": 4})[0]
    check("R diagonal a e a d -> a d e", np.array_equal(out, np.einsum("aead->ade", w)))
    out = R.ref_id([_leafs("a")], [_leafs("ab")], [np.arange(3.0)], {"a": 3, "b": 2})[0]
    check("R broadcast", np.array_equal(out, np.broadcast_to(np.arange(3.0)[:, None], (3, 2))))
    # ---- R: reduce, elementwise, dot, get_at, argmax, sort, roll, softmax
    out = R.ref_reduce("sum", [_leafs("abc", br="b")], [_leafs("ca")], [x], sizes)[0]
    check("R sum a [b] c -> c a", np.array_equal(out, x.sum(1).T))
    out = R.ref_reduce("max", [[Leaf("a", False), XFlat([Leaf("b", True), Leaf("c", False)])]], [_leafs("ac")], [x.reshape(2, 12)], sizes)[0]
    check("R max a ([b] c) -> a c", np.array_equal(out, x.max(1)))
    out = R.ref_elementwise("subtract", [_leafs("ab"), _leafs("bc")], [_leafs("abc")], [x[:, :, 0], x[0]], sizes)[0]
    check("R subtract a b, b c -> a b c", np.array_equal(out, x[:, :, 0][:, :, None] - x[0][None]))
    m1, m2 = rng.integers(-3, 3, size=(2, 3)).astype(float), rng.integers(-3, 3, size=(3, 4)).astype(float)
    out = R.ref_dot([_leafs("ab", br="b"), _leafs("bc", br="b")], [_leafs("ac")], [m1, m2], sizes)[0]
    check("R dot", np.array_equal(out, m1 @ m2))
    img = rng.integers(-5, 5, size=(2, 3, 4)).astype(float)
    idx = np.array([[0, 1], [2, 3], [1, 0]])
    out = R.ref_get_at([_leafs("abc", br="bc"), [Leaf("p", False), Leaf("k", True)]], [_leafs("ap")], [img, idx], {**sizes, "p": 3, "k": 2})[0]
    check("R get_at", np.array_equal(out, img[:, idx[:, 0], idx[:, 1]]))
    d = rng.permutation(24).reshape(2, 3, 4).astype(float)
    out = R.ref_argfind("argmax", [_leafs("abc", br="bc")], [[Leaf("a", False), Leaf("n", True)]], [d], {**sizes, "n": 2})[0]
    exp = np.stack(np.unravel_index(d.reshape(2, 12).argmax(1), (3, 4)), -1)
    check("R argmax a [b c] -> a [2]", np.array_equal(out, exp))
    out = R.ref_preserve("sort", [_leafs("abc", br="b")], [_leafs("abc", br="b")], [d], sizes)[0]
    check("R sort", np.array_equal(out, np.sort(d, 1)))
    out = R.ref_preserve("roll", [_leafs("abc", br="bc")], [_leafs("abc", br="bc")], [d], sizes, shift=(1, -2))[0]
    check("R roll", np.array_equal(out, np.roll(d, (1, -2), (1, 2))))
    out = R.ref_preserve("softmax", [_leafs("abc", br="c")], [_leafs("abc", br="c")], [d], sizes)[0]
    e = np.exp(d - d.max(2, keepdims=True))
    check("R softmax", np.allclose(out, e / e.sum(2, keepdims=True)))
    tgt = np.zeros((2, 4))
    tp, contrib = R.ref_update_contributions([_leafs("ah", br="h"), _leafs("ap"), _leafs("ap")], [tgt, np.array([[0, 0, 3], [1, 1, 1]]), np.arange(6.0).reshape(2, 3)], {"a": 2, "h": 4, "p": 3})
    check("R update contributions", sorted(contrib) == [0, 3, 5] and sorted(contrib[0]) == [0.0, 1.0] and sorted(contrib[5]) == [3.0, 4.0, 5.0])
    # ---- S
    ex = [[Ax("a"), Flat([Ax("b"), Ax("c")])]]
    sol = S.propagate(ex, [(2, 12)], {"b": 3})
    check("S propagate a (b c)", sol.value == "derived" and sol.sizes == {"a": 2, "b": 3, "c": 4})
    sol = S.propagate(ex, [(2, 12)], {})
    check("S stuck", sol.value == "stuck")
    sol = S.propagate(ex, [(2, 12)], {"b": 5})
    check("S contradiction", sol.value == "contradiction")
    ex2 = [[Ell([Ax("s")], "g"), Ax("c")], [Ax("c"), Ell([Ax("s")], "g")]]
    sol = S.propagate(ex2, [(2, 3, 4), None], {})
    check("S ellipsis rank", sol.rank == "derived" and sol.reps == {"g": 2} and sol.sizes == {"s.0": 2, "s.1": 3, "c": 4})
    ex3 = [[Cat([Ax("a"), Num(1, "_nx")]), Ax("c")]]
    sol = S.propagate(ex3, [(6, 2)], {})
    check("S concat", sol.value == "derived" and sol.sizes["a"] == 5)
    from ..gen.expr import expand as _e
    xs = [_e(e_, {}) for e_ in ex]
    sols = S.value_brute(xs, [(2, 12)], {}, {})
    check("S brute ambiguous", sols is not None and len(sols) == 6)
    big = S.propagate(ex, [(2, 2**40 * 3)], {"b": 3})
    check("S big", big.value == "derived" and big.sizes["c"] == 2**40)
    # ---- I
    import einx._src.tracer as tracer
    from .graph import Interp
    P = tracer.signature.python
    a = P.Value(None)
    npm = P.import_("numpy", as_="np")
    t = P.call(npm.add, [a, 1])
    cp = P.call(npm.copy, [t])
    upd = P.setitem(cp, 0, 7.0)
    g = tracer.Graph([a], (P.call(npm.sum, [t]), upd), name="op")
    r = Interp(g)(np.arange(3.0))
    check("I basic", r[0] == 6.0 and np.array_equal(r[1], [7.0, 2.0, 3.0]))
    inner_in = P.Value(None)
    inner = tracer.Graph([inner_in], P.mul(inner_in, t), name=None)
    ap = P.constant(lambda f, v: f(f(v)))
    g2 = tracer.Graph([a], P.call(ap, [inner, a]), name="op")
    r = Interp(g2)(np.arange(3.0))
    check("I nested closure", np.array_equal(r, np.arange(3.0) * (np.arange(3.0) + 1) ** 2))
    print(f"reference-model selftests: {'FAILED ' + str(fails) if fails else 'all passed'}")
    return len(fails)
