"""S - integer solver for expression lists (independent of einx/sympy).

Two deciders over (template expressions, shapes, keyword sizes):
  * brute force: enumerate ellipsis repetition counts and positive leaf sizes within bounds and
    collect every satisfying assignment -> unique / none / ambiguous per quantity;
  * propagation: substitute known values one flattened/concatenated axis (or one tensor rank)
    at a time with exact Python integers -> derived / stuck / contradiction.
Propagation is the executable meaning of "follows by substituting known values" in C02 and is
what lets sizes >= 2**31 be checked where brute force cannot enumerate.
"""

import itertools
import math

from ..gen.expr import Ax, Num, Flat, Cat, Br, Ell, Leaf, XFlat, XCat, expand, xleaves, walk, ANON


class Contradiction(Exception):
    pass


def groups_of(exprs):
    gs = []
    for e in exprs:
        for n in walk(e):
            if isinstance(n, Ell) and n.group not in gs:
                gs.append(n.group)
    return gs


def _axis_groups(exprs):
    """template axis name -> list of enclosing ellipsis groups (outermost first)."""
    res = {}

    def rec(items, stack):
        for n in items:
            if isinstance(n, Ax):
                res.setdefault(n.name, tuple(stack))
            elif isinstance(n, Ell):
                if n.anon:
                    res.setdefault(ANON, tuple(stack + [n.group]))
                rec(n.items, stack + [n.group])
            elif isinstance(n, (Flat, Cat, Br)):
                rec(n.items, stack)

    for e in exprs:
        rec(e, [])
    return res


def _root_count(items, reps):
    """Number of root dimensions as a (constant, {group: coeff}) linear form; nested ellipses
    (depth > 1) are evaluated with the given reps (must then be known)."""
    const = 0
    coeff = {}
    for n in items:
        if isinstance(n, Ell):
            c, co = _root_count([Ax(ANON)] if n.anon else n.items, reps)
            if co:
                # nested ellipsis: need inner reps known
                inner = c
                for g, k in co.items():
                    if reps.get(g) is None:
                        return None
                    inner += k * reps[g]
                coeff[n.group] = coeff.get(n.group, 0) + inner
            else:
                coeff[n.group] = coeff.get(n.group, 0) + c
        elif isinstance(n, Br):
            c, co = _root_count(n.items, reps)
            const += c
            for g, k in co.items():
                coeff[g] = coeff.get(g, 0) + k
        else:
            const += 1
    return const, coeff


def _kw_len(v):
    """Length of a sequence-valued keyword size (depth-1 ellipsis), or None for scalars."""
    if isinstance(v, (list, tuple)):
        return len(v)
    try:
        import numpy as np

        if isinstance(v, np.ndarray) and v.ndim >= 1:
            return int(v.shape[0])
    except Exception:
        pass
    return None


def rank_equations(exprs, shapes, kwargs):
    """-> list of (const, coeff, target) meaning const + sum coeff[g]*reps[g] == target."""
    eqs = []
    for e, s in zip(exprs, shapes):
        if s is None:
            continue
        rc = _root_count(e, {})
        if rc is None:
            raise NotImplementedError("nested ellipses at root level")
        eqs.append((rc[0], rc[1], len(s)))
    ag = _axis_groups(exprs)
    for k, v in kwargs.items():
        n = _kw_len(v)
        gs = ag.get(k)
        if gs is None:
            continue
        if n is not None:
            if len(gs) == 0:
                eqs.append((1, {}, 0))  # a sequence for an axis without ellipsis: contradiction
            else:
                eqs.append((0, {gs[-1]: 1}, n))
    return eqs


def rank_propagate(exprs, shapes, kwargs):
    """-> ('derived', reps) | ('stuck', partial) | ('contradiction', None)"""
    gs = groups_of(exprs)
    eqs = rank_equations(exprs, shapes, kwargs)
    reps = {}
    changed = True
    while changed:
        changed = False
        for const, coeff, target in eqs:
            unknown = [g for g in coeff if g not in reps and coeff[g] != 0]
            known = const + sum(coeff[g] * reps[g] for g in coeff if g in reps)
            if len(unknown) == 0:
                if known != target:
                    return ("contradiction", None)
            elif len(unknown) == 1:
                g = unknown[0]
                rest = target - known
                if rest < 0 or rest % coeff[g] != 0:
                    return ("contradiction", None)
                reps[g] = rest // coeff[g]
                changed = True
    if all(g in reps for g in gs):
        return ("derived", reps)
    return ("stuck", reps)


def rank_brute(exprs, shapes, kwargs, maxr=None):
    gs = groups_of(exprs)
    eqs = rank_equations(exprs, shapes, kwargs)
    if maxr is None:
        maxr = max([len(s) for s in shapes if s is not None] + [_kw_len(v) or 0 for v in kwargs.values()] + [2]) + 1
    sols = []
    for combo in itertools.product(range(maxr + 1), repeat=len(gs)):
        reps = dict(zip(gs, combo))
        if all(const + sum(coeff[g] * reps[g] for g in coeff) == target for const, coeff, target in eqs):
            sols.append(reps)
    return sols


# ------------------------------------------------------------------ value stage


def leaf_kwargs(xexprs, kwargs):
    """keyword sizes -> {expanded leaf name: int}; raises Contradiction on rank mismatch."""
    known = {}
    for e in xexprs:
        for l in xleaves(e):
            if l.isnum:
                continue
            if l.tname in kwargs:
                v = kwargs[l.tname]
                suffix = l.name[len(l.tname):]
                idx = [int(t) for t in suffix.split(".") if t != ""]
                n = _kw_len(v)
                if n is None:
                    val = int(v)
                else:
                    if len(idx) == 0:
                        raise Contradiction("sequence for non-ellipsis axis")
                    seq = list(v)
                    if idx[-1] >= len(seq):
                        raise Contradiction("sequence too short")
                    val = int(seq[idx[-1]])
                known[l.name] = val
    return known


def value_propagate(xexprs, shapes, known0, numvals):
    """Propagation on expanded expressions. -> ('derived'|'stuck'|'contradiction', sizes)"""
    sizes = dict(known0)
    sizes.update(numvals)
    for v in sizes.values():
        if v <= 0:
            return ("contradiction", None)

    def full(n):
        if isinstance(n, Leaf):
            return sizes.get(n.name)
        vals = [full(c) for c in n.items]
        if any(v is None for v in vals):
            return None
        return math.prod(vals) if isinstance(n, XFlat) else sum(vals)

    changed = [True]

    def setleaf(name, v):
        if v <= 0:
            raise Contradiction()
        if name in sizes:
            if sizes[name] != v:
                raise Contradiction()
        else:
            sizes[name] = v
            changed[0] = True

    def push(n, v):
        if isinstance(n, Leaf):
            setleaf(n.name, v)
            return
        vals = [full(c) for c in n.items]
        unknown = [i for i, x in enumerate(vals) if x is None]
        if isinstance(n, XFlat):
            P = math.prod(x for x in vals if x is not None)
            if len(unknown) == 0:
                if P != v:
                    raise Contradiction()
            elif len(unknown) == 1:
                if v % P != 0:
                    raise Contradiction()
                push(n.items[unknown[0]], v // P)
        else:
            S = sum(x for x in vals if x is not None)
            if len(unknown) == 0:
                if S != v:
                    raise Contradiction()
            elif len(unknown) == 1:
                if v - S <= 0:
                    raise Contradiction()
                push(n.items[unknown[0]], v - S)
        # known children may themselves hold inner structure to check/propagate
        for c, x in zip(n.items, vals):
            if x is not None and not isinstance(c, Leaf):
                push(c, x)

    try:
        while changed[0]:
            changed[0] = False
            for e, s in zip(xexprs, shapes):
                if s is None:
                    continue
                for n, v in zip(e, s):
                    push(n, int(v))
    except Contradiction:
        return ("contradiction", None)
    allnames = {l.name for e in xexprs for l in xleaves(e)}
    if all(n in sizes for n in allnames):
        return ("derived", sizes)
    return ("stuck", sizes)


def value_brute(xexprs, shapes, known0, numvals, cap=200000, probe=3):
    """-> None if the search space exceeds cap, else list of satisfying size dicts (all of them)."""
    sizes0 = dict(known0)
    sizes0.update(numvals)
    names = []
    bound = {}
    for e, s in zip(xexprs, shapes):
        for d, n in enumerate(e):
            for l in xleaves([n]):
                if l.name in sizes0:
                    continue
                if l.name not in names:
                    names.append(l.name)
                if s is not None:
                    b = int(s[d])
                    bound[l.name] = min(bound.get(l.name, b), b)
    for n in names:
        bound.setdefault(n, probe)
    space = math.prod(max(bound[n], 1) for n in names)
    if space > cap:
        return None
    if any(v <= 0 for v in sizes0.values()):
        return []

    def val(n, env):
        if isinstance(n, Leaf):
            return env[n.name]
        vals = [val(c, env) for c in n.items]
        return math.prod(vals) if isinstance(n, XFlat) else sum(vals)

    sols = []
    for combo in itertools.product(*[range(1, bound[n] + 1) for n in names]):
        env = dict(sizes0)
        env.update(zip(names, combo))
        ok = True
        for e, s in zip(xexprs, shapes):
            if s is None:
                continue
            for n, v in zip(e, s):
                if val(n, env) != v:
                    ok = False
                    break
            if not ok:
                break
        if ok:
            sols.append(env)
    return sols


def numvals_of(exprs, xexprs):
    vals = {}
    uid2val = {n.uid: n.value for e in exprs for n in walk(e) if isinstance(n, Num)}
    for e in xexprs:
        for l in xleaves(e):
            if l.isnum:
                vals[l.name] = uid2val[l.tname]
    return vals


class Solution:
    def __init__(self):
        self.rank = None  # 'derived' | 'stuck' | 'contradiction'
        self.reps = None
        self.value = None
        self.sizes = None
        self.xexprs = None


def propagate(exprs, shapes, kwargs):
    """Full propagation solve (rank stage, then value stage)."""
    sol = Solution()
    st, reps = rank_propagate(exprs, shapes, kwargs)
    sol.rank, sol.reps = st, reps
    if st != "derived":
        return sol
    xexprs = [expand(e, reps) for e in exprs]
    sol.xexprs = xexprs
    for e, s in zip(xexprs, shapes):
        if s is not None and len(e) != len(s):
            sol.rank = "contradiction"
            return sol
    try:
        known = leaf_kwargs(xexprs, kwargs)
    except Contradiction:
        sol.value = "contradiction"
        return sol
    st, sizes = value_propagate(xexprs, shapes, known, numvals_of(exprs, xexprs))
    sol.value, sol.sizes = st, sizes
    return sol
