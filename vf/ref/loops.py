"""R - loop-notation reference interpreter.

Shares no code with einx. A tensor expression (expanded: Leaf / XFlat / XCat) is turned into
*pieces* (one per choice of child at every '+', enumerated depth-first in textual order, first
concatenation slowest). A piece is an affine map from leaf indices to the flat row-major offset
in the tensor. R then literally runs the documentation's for-loops: one Python loop per
un-bracketed axis name, gather the bracketed sub-tensors, call the elementary operation,
scatter into the output. numpy is used for the elementary operation on the sub-tensors and for
flat fancy indexing only.
"""

import itertools
import math

import numpy as np

from ..gen.expr import Leaf, XFlat, XCat, xvalue, xshape


class Piece:
    __slots__ = ("leaves", "offsets", "shape")

    def __init__(self, leaves, offsets, shape):
        self.leaves = leaves  # list[Leaf] in order of appearance
        self.offsets = offsets  # int64 ndarray, one dim per leaf
        self.shape = shape  # shape of the whole tensor


def _alts(node, sizes):
    """-> list of (leaves, offset, strides) alternatives for one root dimension / sub-tree."""
    if isinstance(node, Leaf):
        return [([node], 0, [1])]
    if isinstance(node, XFlat):
        child_alts = [_alts(c, sizes) for c in node.items]
        child_sizes = [xvalue(c, sizes) for c in node.items]
        mult = [math.prod(child_sizes[i + 1:]) for i in range(len(child_sizes))]
        out = []
        for combo in itertools.product(*child_alts):
            leaves, offset, strides = [], 0, []
            for (lv, off, st), m in zip(combo, mult):
                leaves.extend(lv)
                offset += off * m
                strides.extend(s * m for s in st)
            out.append((leaves, offset, strides))
        return out
    if isinstance(node, XCat):
        out = []
        base = 0
        for c in node.items:
            for lv, off, st in _alts(c, sizes):
                out.append((list(lv), base + off, list(st)))
            base += xvalue(c, sizes)
        return out
    raise TypeError(node)


def pieces(items, sizes):
    shape = xshape(items, sizes)
    root_strides = [math.prod(shape[i + 1:]) for i in range(len(shape))]
    dim_alts = [_alts(n, sizes) for n in items]
    out = []
    for combo in itertools.product(*dim_alts):
        leaves, base, strides = [], 0, []
        for (lv, off, st), R in zip(combo, root_strides):
            leaves.extend(lv)
            base += off * R
            strides.extend(s * R for s in st)
        lsizes = [sizes[l.name] for l in leaves]
        offs = np.full(tuple(lsizes), base, dtype=np.int64)
        for p, (n, s) in enumerate(zip(lsizes, strides)):
            sh = [1] * len(lsizes)
            sh[p] = n
            offs = offs + (np.arange(n, dtype=np.int64) * s).reshape(sh)
        out.append(Piece(leaves, offs, shape))
    return out


def _indexer(piece, vec_index):
    """Per leaf: position of its loop variable in env, or None for a bracketed leaf (slice)."""
    return [None if l.bracket else vec_index[l.name] for l in piece.leaves]


def _edims(piece, sizes):
    """(leaf-wise shape, elementary shape) of the bracketed sub-tensor of a piece: bracketed leaves of one
    parenthesised group under a bracket are one (row-major flattened) dimension for the elementary operation."""
    leafshape, eshape = [], []
    last = object()
    for l in piece.leaves:
        if not l.bracket:
            continue
        n = sizes[l.name]
        leafshape.append(n)
        if l.eg is not None and l.eg == last:
            eshape[-1] *= n
        else:
            eshape.append(n)
        last = l.eg if l.eg is not None else object()
    return tuple(leafshape), tuple(eshape)


def loop_apply(in_flats, in_pieces, out_pieces, elem, sizes, out_flats=None, out_dtype=None):
    """Run the for-loops. elem(*subtensors) -> tuple with one value per output piece.
    Returns the list of flat output arrays (allocated on first result unless given)."""
    vec = []
    for p in list(in_pieces) + list(out_pieces):
        for l in p.leaves:
            if not l.bracket and l.name not in vec:
                vec.append(l.name)
    vec_index = {n: i for i, n in enumerate(vec)}
    in_idx = [_indexer(p, vec_index) for p in in_pieces]
    out_idx = [_indexer(p, vec_index) for p in out_pieces]
    in_ed = [_edims(p, sizes) for p in in_pieces]
    out_ed = [_edims(p, sizes) for p in out_pieces]
    if out_flats is None:
        out_flats = [None] * len(out_pieces)
    ranges = [range(sizes[n]) for n in vec]
    for env in itertools.product(*ranges):
        subs = []
        for flat, p, ix, (lshape, eshape) in zip(in_flats, in_pieces, in_idx, in_ed):
            sel = tuple(slice(None) if i is None else env[i] for i in ix)
            sub = flat[p.offsets[sel]]
            if lshape != eshape:
                sub = np.asarray(sub).reshape(eshape)
            subs.append(sub)
        res = elem(*subs)
        if not isinstance(res, tuple):
            res = (res,)
        for k, (p, ix, r) in enumerate(zip(out_pieces, out_idx, res)):
            sel = tuple(slice(None) if i is None else env[i] for i in ix)
            if out_flats[k] is None:
                dt = out_dtype if out_dtype is not None else np.asarray(r).dtype
                out_flats[k] = np.zeros(math.prod(p.shape), dtype=dt)
            else:
                rt = np.result_type(out_flats[k].dtype, np.asarray(r).dtype)
                if rt != out_flats[k].dtype and out_dtype is None:
                    out_flats[k] = out_flats[k].astype(rt)
            lshape, eshape = out_ed[k]
            if lshape != eshape and np.ndim(r) == len(eshape):
                r = np.asarray(r).reshape(lshape)
            out_flats[k][p.offsets[sel]] = r
    return out_flats


# ------------------------------------------------------------------ elementary operations


def _logsumexp(s):
    s = np.asarray(s, dtype=np.float64)
    m = np.max(s)
    return m + np.log(np.sum(np.exp(s - m)))


REDUCE = {
    "sum": lambda s: np.sum(s),
    "mean": lambda s: np.mean(s),
    "var": lambda s: np.var(s),
    "std": lambda s: np.std(s),
    "prod": lambda s: np.prod(s),
    "count_nonzero": lambda s: np.count_nonzero(s),
    "any": lambda s: np.any(s),
    "all": lambda s: np.all(s),
    "max": lambda s: np.max(s),
    "min": lambda s: np.min(s),
    "logsumexp": _logsumexp,
}


def _fold(f):
    def g(*xs):
        r = xs[0]
        for y in xs[1:]:
            r = f(r, y)
        return r

    return g


ELEMENTWISE = {
    "add": _fold(lambda a, b: a + b),
    "subtract": lambda a, b: a - b,
    "multiply": _fold(lambda a, b: a * b),
    "true_divide": lambda a, b: np.true_divide(a, b),
    "floor_divide": lambda a, b: np.floor_divide(a, b),
    "divide": lambda a, b: np.divide(a, b),
    "logical_and": _fold(lambda a, b: np.logical_and(a, b)),
    "logical_or": _fold(lambda a, b: np.logical_or(a, b)),
    "where": lambda c, a, b: a if c else b,
    "maximum": _fold(lambda a, b: a if a >= b else b),
    "minimum": _fold(lambda a, b: a if a <= b else b),
    "less": lambda a, b: a < b,
    "less_equal": lambda a, b: a <= b,
    "greater": lambda a, b: a > b,
    "greater_equal": lambda a, b: a >= b,
    "equal": lambda a, b: a == b,
    "not_equal": lambda a, b: a != b,
    "logaddexp": lambda *xs: _logsumexp(np.asarray(xs, dtype=np.float64)),
}
ELEMENTWISE_ARITY = {
    "add": None, "multiply": None, "logical_and": None, "logical_or": None, "maximum": None, "minimum": None, "logaddexp": None,
    "subtract": 2, "true_divide": 2, "floor_divide": 2, "divide": 2, "where": 3,
    "less": 2, "less_equal": 2, "greater": 2, "greater_equal": 2, "equal": 2, "not_equal": 2,
}
INEXACT = {"mean", "var", "std", "logsumexp", "true_divide", "divide", "logaddexp", "softmax", "log_softmax"}


def _argfind(better):
    def f(sub):
        best = None
        for idx in np.ndindex(sub.shape):
            if best is None or better(sub[idx], sub[best]):
                best = idx
        return best

    return f


_argmax = _argfind(lambda a, b: a > b)
_argmin = _argfind(lambda a, b: a < b)


def _softmax(s):
    s = np.asarray(s, dtype=np.float64)
    e = np.exp(s - np.max(s))
    return e / np.sum(e)


def _log_softmax(s):
    s = np.asarray(s, dtype=np.float64)
    return s - _logsumexp(s)


def _flip(s):
    return s[tuple(slice(None, None, -1) for _ in range(s.ndim))]


def _roll(s, shifts):
    out = np.empty_like(s)
    for idx in np.ndindex(s.shape):
        tgt = tuple((i + sh) % n for i, sh, n in zip(idx, shifts, s.shape))
        out[tgt] = s[idx]
    return out


# ------------------------------------------------------------------ whole operations


def _flat(t):
    return np.ascontiguousarray(t).reshape(-1)


def _single(items, sizes):
    ps = pieces(items, sizes)
    assert len(ps) == 1
    return ps[0]


def _finish(out_flats, out_pieces_per_tensor):
    return [f.reshape(ps[0].shape) for f, ps in zip(out_flats, out_pieces_per_tensor)]


def ref_id(xin, xout, tensors, sizes):
    """einx.id with concatenations: piece i of the inputs -> piece i of the outputs."""
    in_list = []
    for items, t in zip(xin, tensors):
        f = _flat(np.asarray(t))
        for p in pieces(items, sizes):
            in_list.append((f, p))
    out_pieces = [pieces(items, sizes) for items in xout]
    out_list = []
    for k, ps in enumerate(out_pieces):
        for p in ps:
            out_list.append((k, p))
    if len(in_list) != len(out_list):
        raise ValueError("piece count mismatch")
    dtypes = [None] * len(xout)
    for (f, _), (k, _) in zip(in_list, out_list):
        dtypes[k] = f.dtype if dtypes[k] is None else np.result_type(dtypes[k], f.dtype)
    flats = [np.zeros(math.prod(ps[0].shape), dtype=dtypes[k]) for k, ps in enumerate(out_pieces)]
    for (f, pi), (k, po) in zip(in_list, out_list):
        loop_apply([f], [pi], [po], lambda s: s, sizes, out_flats=[flats[k]])
    return _finish(flats, out_pieces)


def ref_elementwise(op, xin, xout, tensors, sizes):
    f = ELEMENTWISE[op]
    ins = [_single(e, sizes) for e in xin]
    out = _single(xout[0], sizes)
    flats = loop_apply([_flat(np.asarray(t)) for t in tensors], ins, [out], f, sizes)
    return _finish(flats, [[out]])


def ref_reduce(op, xin, xout, tensors, sizes):
    f = REDUCE[op]
    ins = [_single(xin[0], sizes)]
    out = _single(xout[0], sizes)
    flats = loop_apply([_flat(np.asarray(tensors[0]))], ins, [out], f, sizes)
    return _finish(flats, [[out]])


def ref_dot(xin, xout, tensors, sizes):
    ins = [_single(e, sizes) for e in xin]
    out = _single(xout[0], sizes)
    bnames = []
    per = []
    for p in ins:
        names = [l.name for l in p.leaves if l.bracket]
        per.append(names)
        for n in names:
            if n not in bnames:
                bnames.append(n)

    def elem(*subs):
        prod = None
        for s, names in zip(subs, per):
            s = np.asarray(s)
            # bring to the order of bnames, missing names -> size-1 axes
            perm = sorted(range(len(names)), key=lambda i: bnames.index(names[i]))
            s = np.transpose(s, perm) if s.ndim else s
            sh = [1] * len(bnames)
            for i in perm:
                sh[bnames.index(names[i])] = sizes[names[i]]
            s = s.reshape(sh)
            prod = s if prod is None else prod * s
        return np.sum(prod)

    flats = loop_apply([_flat(np.asarray(t)) for t in tensors], ins, [out], elem, sizes)
    return _finish(flats, [[out]])


def _coord_vector(csubs):
    c = []
    for s in csubs:
        s = np.asarray(s)
        if s.ndim == 0:
            c.append(int(s))
        else:
            c.extend(int(v) for v in s.reshape(-1))
    return tuple(c)


def ref_get_at(xin, xout, tensors, sizes):
    ins = [_single(e, sizes) for e in xin]
    out = _single(xout[0], sizes)

    def elem(v, *cs):
        return np.asarray(v)[_coord_vector(cs)]

    flats = loop_apply([_flat(np.asarray(t)) for t in tensors], ins, [out], elem, sizes)
    return _finish(flats, [[out]])


def ref_update_contributions(xin, tensors, sizes):
    """For set_at/add_at/subtract_at: -> (target piece, dict flat offset -> list of update values).
    Loops over all un-bracketed axes of target, coordinate and update expressions."""
    ins = [_single(e, sizes) for e in xin]
    tp = ins[0]
    flats = [_flat(np.asarray(t)) for t in tensors]
    vec = []
    for p in ins:
        for l in p.leaves:
            if not l.bracket and l.name not in vec:
                vec.append(l.name)
    vec_index = {n: i for i, n in enumerate(vec)}
    idx = [_indexer(p, vec_index) for p in ins]
    contrib = {}
    for env in itertools.product(*[range(sizes[n]) for n in vec]):
        subs = []
        for f, p, ix in zip(flats, ins, idx):
            sel = tuple(slice(None) if i is None else env[i] for i in ix)
            subs.append((f, p.offsets[sel]))
        toffs = subs[0][1]  # offsets of the target's bracketed sub-tensor
        lshape_, eshape_ = _edims(tp, sizes)
        if lshape_ != eshape_:
            toffs = np.asarray(toffs).reshape(eshape_)
        coords = _coord_vector([f[o] for f, o in subs[1:-1]])
        uf, uo = subs[-1]
        uval = uf[uo]
        assert np.ndim(uval) == 0
        off = int(np.asarray(toffs)[coords])
        contrib.setdefault(off, []).append(uval)
    return tp, contrib


def ref_preserve(op, xin, xout, tensors, sizes, shift=None):
    pin = _single(xin[0], sizes)
    out = _single(xout[0], sizes)
    nb = len(_edims(pin, sizes)[1])  # number of dimensions of the elementary sub-tensor
    if op == "flip":
        elem = _flip
    elif op == "roll":
        if isinstance(shift, (int, np.integer)):
            sh = [int(shift)] * nb
        else:
            sh = [int(s) for s in shift]
            if len(sh) == 1:
                sh = sh * nb
        elem = lambda s: _roll(np.asarray(s), sh)
    elif op == "sort":
        elem = lambda s: np.asarray(sorted(np.asarray(s).tolist()), dtype=np.asarray(s).dtype)
    elif op == "argsort":
        elem = lambda s: np.asarray(sorted(range(len(s)), key=lambda i: s[i]), dtype=np.int64)
    elif op == "softmax":
        elem = _softmax
    elif op == "log_softmax":
        elem = _log_softmax
    else:
        raise KeyError(op)
    flats = loop_apply([_flat(np.asarray(tensors[0]))], [pin], [out], elem, sizes)
    return _finish(flats, [[out]])


def ref_argfind(op, xin, xout, tensors, sizes):
    pin = _single(xin[0], sizes)
    out = _single(xout[0], sizes)
    find = _argmax if op == "argmax" else _argmin
    out_has_bracket = any(l.bracket for l in out.leaves)

    def elem(s):
        idx = find(np.asarray(s))
        if out_has_bracket:
            return np.asarray(idx, dtype=np.int64)
        assert len(idx) == 1
        return np.int64(idx[0])

    flats = loop_apply([_flat(np.asarray(tensors[0]))], [pin], [out], elem, sizes, out_dtype=np.int64)
    return _finish(flats, [[out]])


def ref_adapt_reduce(fn, xin, xout, tensors, sizes, **kw):
    """Loop semantics with a user function as elementary operation (adapt_numpylike_reduce):
    the function is applied to the bracketed sub-tensor with axis=all of its axes."""
    ins = [_single(xin[0], sizes)]
    out = _single(xout[0], sizes)

    def elem(s):
        s = np.asarray(s)
        return fn(s, axis=tuple(range(s.ndim)), **kw)

    flats = loop_apply([_flat(np.asarray(tensors[0]))], ins, [out], elem, sizes)
    return _finish(flats, [[out]])


def ref_adapt_elementwise(fn, xin, xout, tensors, sizes, **kw):
    ins = [_single(e, sizes) for e in xin]
    out = _single(xout[0], sizes)
    flats = loop_apply([_flat(np.asarray(t)) for t in tensors], ins, [out], lambda *xs: fn(*xs, **kw), sizes)
    return _finish(flats, [[out]])
