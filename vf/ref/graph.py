"""I - node-by-node interpreter of einx's tracer IR (independent of the code generator).

Every value is evaluated once per invocation (memo by tracer identity), in-place nodes really
mutate, nested graphs become Python closures; nodes of a nested graph that do not depend on its
inputs belong to the enclosing scope and are evaluated when the closure is created.
"""
import builtins
import collections
import importlib
import operator

import numpy as np

OPS = {"+": operator.add, "*": operator.mul, "-": operator.sub, "==": operator.eq, "!=": operator.ne, "<": operator.lt, "<=": operator.le, ">": operator.gt, ">=": operator.ge}


class Interp:
    def __init__(self, graph):
        import einx._src.tracer as tracer

        self.tracer = tracer
        self.P = tracer.signature.python
        self.graph = graph
        self.kinds = collections.Counter()
        self._dep_memo = {}

    def __call__(self, *args):
        env = {}
        if len(args) != len(self.graph.inputs):
            raise TypeError(f"graph expects {len(self.graph.inputs)} inputs, got {len(args)}")
        for t, a in zip(self.graph.inputs, args):
            env[id(t)] = a
        return self.ev(self.graph.output, env)

    # ---- dependence of a node on a set of input tracers (for the scoping rule)
    def _depends(self, x, input_ids, memo):
        tracer = self.tracer
        if isinstance(x, (str, int, float, bool, np.integer, np.floating)) or x is None:
            return False
        if isinstance(x, (list, tuple)):
            return any(self._depends(i, input_ids, memo) for i in x)
        if isinstance(x, dict):
            return any(self._depends(i, input_ids, memo) for i in list(x.keys()) + list(x.values()))
        if isinstance(x, slice):
            return any(self._depends(i, input_ids, memo) for i in (x.start, x.stop, x.step))
        if isinstance(x, tracer.Graph):
            return self._depends(x.output, input_ids | {id(i) for i in x.inputs}, memo) if False else self._depends_graph(x, input_ids, memo)
        if not isinstance(x, tracer.Tracer):
            return False
        if id(x) in input_ids:
            return True
        k = id(x)
        if k in memo:
            return memo[k]
        memo[k] = False
        r = x.origin is not None and any(self._depends(i, input_ids, memo) for i in x.origin.inputs)
        memo[k] = r
        return r

    def _depends_graph(self, g, input_ids, memo):
        return self._depends(g.output, input_ids, memo)

    def _outer_nodes(self, g):
        """Tracers reachable from g.output that do not depend on g's inputs (nor on the inputs of graphs
        nested inside g): they belong to the enclosing scope and are evaluated at closure creation."""
        tracer = self.tracer
        out = []
        seen = set()

        def rec(x, input_ids, memo):
            if isinstance(x, (list, tuple)):
                for i in x:
                    rec(i, input_ids, memo)
            elif isinstance(x, dict):
                for i in list(x.keys()) + list(x.values()):
                    rec(i, input_ids, memo)
            elif isinstance(x, slice):
                for i in (x.start, x.stop, x.step):
                    rec(i, input_ids, memo)
            elif isinstance(x, tracer.Graph):
                inner_ids = input_ids | {id(i) for i in x.inputs}
                if not self._depends(x.output, inner_ids, {}):
                    pass  # a nested function that uses nothing bound here: created where it is used
                rec(x.output, inner_ids, {})
            elif isinstance(x, tracer.Tracer):
                if id(x) in seen or id(x) in input_ids:
                    return
                seen.add(id(x))
                if not self._depends(x, input_ids, memo):
                    out.append(x)
                elif x.origin is not None:
                    for i in x.origin.inputs:
                        rec(i, input_ids, memo)

        rec(g.output, {id(i) for i in g.inputs}, {})
        return out

    def ev(self, x, env):
        tracer, P = self.tracer, self.P
        if isinstance(x, (str, int, float, bool, np.integer, np.floating)) or x is None:
            return x
        if isinstance(x, list):
            return [self.ev(i, env) for i in x]
        if isinstance(x, tuple):
            return tuple(self.ev(i, env) for i in x)
        if isinstance(x, dict):
            return {self.ev(k, env): self.ev(v, env) for k, v in x.items()}
        if isinstance(x, slice):
            return slice(self.ev(x.start, env), self.ev(x.stop, env), self.ev(x.step, env))
        if isinstance(x, tracer.Graph):
            if ("g", id(x)) in env:
                return env[("g", id(x))]
            g = x
            for n in self._outer_nodes(g):
                self.ev(n, env)
            outer = env

            def f(*a):
                env2 = dict(outer)
                if len(a) != len(g.inputs):
                    raise TypeError("arity")
                for t, v in zip(g.inputs, a):
                    env2[id(t)] = v
                return self.ev(g.output, env2)

            env[("g", id(x))] = f
            return f
        if not isinstance(x, tracer.Tracer):
            raise TypeError(f"cannot interpret {type(x)}")
        if id(x) in env:
            return env[id(x)]
        o = x.origin
        if o is None:
            raise ValueError("free tracer without binding")
        self.kinds[type(o).__name__] += 1
        if isinstance(o, P.Call):
            f = self.ev(o.function, env)
            a = [self.ev(i, env) for i in o.args]
            k = {kk: self.ev(v, env) for kk, v in o.kwargs.items()}
            for d in o.additional_dependencies:
                self.ev(d, env)
            r = f(*a, **k)
        elif isinstance(o, P.CallInplace):
            xs = self.ev(o.xs, env)
            f = self.ev(o.function, env)
            a = [self.ev(i, env) for i in o.args]
            k = {kk: self.ev(v, env) for kk, v in o.kwargs.items()}
            for d in o.additional_dependencies:
                self.ev(d, env)
            f(*a, **k)
            r = xs
        elif isinstance(o, P.UpdateItem):
            obj = self.ev(o.obj, env)
            key = self.ev(o.key, env)
            val = self.ev(o.value, env)
            if o.op == "=":
                obj[key] = val
            elif o.op == "+=":
                obj[key] += val
            elif o.op == "-=":
                obj[key] -= val
            else:
                raise NotImplementedError(o.op)
            r = obj
        elif isinstance(o, P.GetAttr):
            r = getattr(self.ev(o.obj, env), o.key)
        elif isinstance(o, P.GetItem):
            r = self.ev(o.obj, env)[self.ev(o.key, env)]
        elif isinstance(o, P.Import):
            if o.from_ is None:
                r = importlib.import_module(o.import_)
            else:
                m = importlib.import_module(o.from_)
                r = getattr(m, o.import_) if hasattr(m, o.import_) else importlib.import_module(o.from_ + "." + o.import_)
        elif isinstance(o, P.OperatorApplication):
            ops = [self.ev(i, env) for i in o.operands]
            if len(ops) == 1 and o.operator == "-":
                r = -ops[0]
            else:
                r = OPS[o.operator](*ops)
        elif isinstance(o, P.Assert):
            c = self.ev(o.condition, env)
            if not c:
                raise AssertionError(o.message)
            r = self.ev(o.xs, env)
            outs = o.output
            if isinstance(outs, (list, tuple)):
                self._bind(outs, r, env)
                return env[id(x)]
        elif isinstance(o, P.Builtin):
            r = getattr(builtins, o.name)
        elif isinstance(o, P.Constant):
            r = o.value
        elif isinstance(o, tracer.Cast):
            r = self.ev(o.input, env)
            outs = o.output
            if isinstance(outs, (list, tuple)):
                self._bind(outs, r, env)
                return env[id(x)]
        else:
            raise NotImplementedError(type(o))
        env[id(x)] = r
        return r

    def _bind(self, outs, r, env):
        for t, v in zip(outs, r):
            if isinstance(t, (list, tuple)):
                self._bind(t, v, env)
            else:
                env[id(t)] = v


def constants_of(graph):
    """Constant values in order of first definition by the compiler's traversal is not needed: we map
    by header comments instead (see checks). Returns list of Constant nodes reachable from graph."""
    import einx._src.tracer as tracer

    P = tracer.signature.python
    seen, out = set(), []

    def rec(x):
        if isinstance(x, (list, tuple)):
            for i in x:
                rec(i)
        elif isinstance(x, dict):
            for i in list(x.keys()) + list(x.values()):
                rec(i)
        elif isinstance(x, slice):
            for i in (x.start, x.stop, x.step):
                rec(i)
        elif isinstance(x, tracer.Graph):
            rec(x.output)
        elif isinstance(x, tracer.Tracer):
            if id(x) in seen:
                return
            seen.add(id(x))
            if x.origin is not None:
                if isinstance(x.origin, P.Constant):
                    out.append(x.origin)
                for i in x.origin.inputs:
                    rec(i)

    rec(graph)
    return out
