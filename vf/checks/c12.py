"""C12 - the expression parser is total and stable under re-printing and extra spacing.

Monitors (all on the real parser, einx._src.namedtensor.stage1.parse_op, and on public ops):
 (a) only einx.errors.SyntaxError may come out of parse_op;
 (b) its message quotes the caller's string, followed by a marker line of exactly len(s) columns;
 (c) redundant spaces (in space-insensitive gaps only) change neither outcome nor structure;
 (d) str(tree) re-parses to the same structure;
 (e) a public op given an accepted string never raises a SyntaxError quoting other text.
Workload: exhaustive token sequences up to a length bound + random longer / hostile strings.
"""

import itertools
import random
import signal

ID = "C12"
LEVEL = "exploration"
RULE = (
    "all token sequences over {a,b,1,2,(,),[,],...,->,',',+,space} up to length L (quick 5, thorough 6), each also in "
    "space-padded variants, plus random longer sequences over a wider alphabet and raw character soup; a case is "
    "distinct by its string and non-trivial if it has >= 2 tokens and is either accepted by the parser or rejected "
    "with a located SyntaxError"
)
ASSUMPTIONS = [
    "structure comparison ignores random ellipsis ids and canonicalises unnamed.<uuid> axis names by first occurrence",
    "spaces are only inserted in gaps where one neighbour is a space/operator/inner side of a delimiter/string end and no neighbour is '...'",
]
TIMEOUT = {"quick": 900, "thorough": 7200}

ALPHA = ["a", "b", "1", "2", "(", ")", "[", "]", "...", "->", ",", "+", " "]
WIDE = ALPHA + ["c", "ab", "x_1", "10", "0", "|", "{", "}", "\t", "\n", ".", "..", "-", ">", "A", "é", "*", "1a", "  "]


def shards(tier, seed, scale):
    L = 5 if tier == "quick" else 6
    n = 16
    out = []
    for i in range(n):
        out.append({"kind": "enum", "L": L, "part": i, "parts": n, "nrandom": int((4000 if tier == "quick" else 60000) * scale)})
    return out


# ---------------------------------------------------------------- harness-side helpers


def dump(node, names=None):
    """Structure of a stage1 tree: node kinds, axis names (unnamed canonicalised), values. No ids/positions."""
    if names is None:
        names = {}
    k = type(node).__name__
    if k == "Axis":
        nm = node.name
        if nm.startswith("unnamed."):
            nm = "#"  # identity of unnamed axes is not expressible in the notation (like ellipsis ids)
        return ("ax", nm, node.value)
    if k in ("FlattenedAxis", "Brackets", "Ellipsis"):
        return (k, dump(node.inner, names))
    return (k, tuple(dump(c, names) for c in node.children))


def insensitive_gaps(tokens):
    """Indices g (0..len) such that inserting a space before tokens[g] must not matter."""
    left_ok = {" ", "->", ",", "+", "(", "["}
    right_ok = {" ", "->", ",", "+", ")", "]"}
    gaps = []
    for g in range(len(tokens) + 1):
        t1 = tokens[g - 1] if g > 0 else None
        t2 = tokens[g] if g < len(tokens) else None
        if t1 == "..." or t2 == "...":
            continue
        if t1 is None or t2 is None or t1 in left_ok or t2 in right_ok:
            gaps.append(g)
    return gaps


def foreign_text_cause(tree):
    """Why einx's internal re-printing of an accepted expression could be un-parsable: the only
    known mechanism is an ellipsis applied to a bracket whose content is a list or another
    ellipsis (printed as '{a b}...' / 'a......'). Anything else is reported as 'other'."""

    def strip(n):
        while type(n).__name__ == "Brackets":
            n = n.inner
        return n

    for n in tree.nodes():
        if type(n).__name__ == "Ellipsis":
            inner = n.inner
            if type(inner).__name__ == "Brackets" or any(type(a).__name__ == "Brackets" for a in _ancestors(n)):
                inner = strip(inner)
                if type(inner).__name__ in ("List", "Ellipsis"):
                    return "ellipsis-over-bracketed-list-or-ellipsis"
    return "other"


def _ancestors(n):
    n = n.parent
    while n is not None:
        yield n
        n = n.parent


class Watchdog(Exception):
    pass


def _alarm(signum, frame):
    raise Watchdog()


def run(spec, out):
    import einx
    import numpy as np
    from einx._src.namedtensor.stage1 import parse_op
    from einx.errors import SyntaxError as ESyntaxError
    from ..util import exc_site

    rng = random.Random(spec["seed"])
    signal.signal(signal.SIGALRM, _alarm)
    x1 = np.zeros((1,))
    pubops = [
        ("id", lambda s: einx.id(s, x1, graph=True)),
        ("sum", lambda s: einx.sum(s, x1, graph=True)),
        ("add", lambda s: einx.add(s, x1, graph=True)),
        ("dot", lambda s: einx.dot(s, x1, graph=True)),
        ("get_at", lambda s: einx.get_at(s, x1, graph=True)),
        ("set_at", lambda s: einx.set_at(s, x1, graph=True)),
        ("argmax", lambda s: einx.argmax(s, x1, graph=True)),
        ("sort", lambda s: einx.sort(s, x1, graph=True)),
        ("solve_axes", lambda s: einx.solve_axes(s, x1)),
    ]

    def parse(s):
        """-> ('ok', tree) | ('syntax', msg) | ('other', exc)"""
        signal.alarm(20)
        try:
            t = parse_op(s)
            return ("ok", t)
        except ESyntaxError as e:
            return ("syntax", str(e))
        except Watchdog:
            return ("watchdog", None)
        except BaseException as e:  # noqa
            return ("other", e)
        finally:
            signal.alarm(0)

    def check_string(s, tokens, full):
        out.evaluation()
        r = parse(s)
        if r[0] == "watchdog":
            out.inconclusive(f"parse_op({s!r}) did not return within 20s")
            return
        if r[0] == "other":
            e = r[1]
            out.violation(
                {"kind": "parser-non-syntaxerror", "exc": type(e).__name__, **exc_site(e)},
                {"string": s, "message": str(e)[:300]},
                f"parse_op({s!r}) raised {type(e).__name__}: {str(e)[:100]}",
            )
            return
        if tokens is None or len(tokens) >= 2:
            out.distinct_key(s)
        if r[0] == "syntax":
            out.count("rejected")
            msg = r[1]
            quote = f'Expression: "{s}"\n' + " " * 13
            i = msg.find(quote)
            ok = i >= 0
            if ok:
                marker = msg[i + len(quote):].split("\n")[0] if "\n" not in s else msg[i + len(quote): i + len(quote) + len(s)]
                ok = len(marker) == len(s) and set(marker) <= {" ", "^"}
            if not ok:
                out.violation({"kind": "syntaxerror-does-not-quote-input"}, {"string": s, "message": msg[:400]}, f"SyntaxError for {s!r} does not quote it with a marker line of len(s)")
            else:
                out.count("rejected_located")
        else:
            out.count("accepted")
            d0 = dump(r[1])
            # (d) re-print / re-parse
            printed = str(r[1])
            r2 = parse(printed)
            out.count("reprint_checked")
            if r2[0] != "ok":
                out.violation(
                    {"kind": "reprint-not-reparsable", "outcome": r2[0]},
                    {"string": s, "printed": printed, "message": (r2[1] if r2[0] == "syntax" else repr(r2[1]))[:300]},
                    f"parse_op({s!r}) prints as {printed!r} which does not re-parse",
                )
            elif dump(r2[1]) != d0:
                out.violation({"kind": "reprint-different-structure"}, {"string": s, "printed": printed}, f"{s!r} -> {printed!r} re-parses to a different structure")
            # (e) public ops never complain about other text
            if full:
                for name, f in pubops:
                    out.count("public_calls")
                    try:
                        f(s)
                    except ESyntaxError as e:
                        if f'Expression: "{s}"' not in str(e) and not (name == "solve_axes" and "->" in s):
                            out.violation(
                                {"kind": "public-syntaxerror-about-foreign-text", "cause": foreign_text_cause(r[1])},
                                {"string": s, "message": str(e)[:300]},
                                f"einx.{name}({s!r}) raised SyntaxError about text the caller did not write: {str(e)[:120]!r}",
                            )
                        else:
                            out.count("public_syntaxerror_own_text")
                    except BaseException:
                        pass
        # (c) spacing
        gaps = insensitive_gaps(tokens) if tokens is not None else []
        if gaps:
            variants = []
            g = rng.choice(gaps)
            variants.append(tokens[:g] + [" "] + tokens[g:])
            if len(gaps) > 1:
                ks = rng.sample(gaps, min(len(gaps), rng.randint(2, 4)))
                t2 = []
                for i in range(len(tokens) + 1):
                    if i in ks:
                        t2.extend([" "] * rng.randint(1, 2))
                    if i < len(tokens):
                        t2.append(tokens[i])
                variants.append(t2)
            for v in variants:
                s2 = "".join(v)
                out.count("spacing_variants")
                r3 = parse(s2)
                if r3[0] == "watchdog":
                    out.inconclusive(f"parse_op({s2!r}) did not return within 20s")
                    continue
                same = (r3[0] == r[0]) and (r[0] != "ok" or dump(r3[1]) == d0)
                if r3[0] == "other":
                    e = r3[1]
                    out.violation({"kind": "parser-non-syntaxerror", "exc": type(e).__name__, **exc_site(e)}, {"string": s2}, f"parse_op({s2!r}) raised {type(e).__name__}")
                elif not same:
                    out.violation({"kind": "spacing-sensitive", "from": r[0], "to": r3[0]}, {"string": s, "padded": s2}, f"{s!r} parses as {r[0]} but padded {s2!r} as {r3[0]}")

    # ---- exhaustive enumeration
    L, part, parts = spec["L"], spec["part"], spec["parts"]
    prefixes = list(itertools.product(ALPHA, repeat=2))
    n_enum = 0
    if part == 0:
        check_string("", [], True)
        for t in ALPHA:
            check_string(t, [t], True)
            n_enum += 1
    for pi, pre in enumerate(prefixes):
        if pi % parts != part:
            continue
        for ln in range(2, L + 1):
            for rest in itertools.product(ALPHA, repeat=ln - 2):
                toks = list(pre) + list(rest)
                check_string("".join(toks), toks, ln <= 5)
                n_enum += 1
    out.count("enumerated", n_enum)
    out.sample({"kind": "enumerated", "example": "".join(prefixes[part % len(prefixes)]) + "(a", "bound": L})

    # ---- grammar-generated well-formed expressions with deeper nesting than the enumeration reaches
    names = [chr(c) for c in range(ord("a"), ord("z") + 1)]

    def g_item(depth, ctx):
        r = rng.random()
        if depth >= 3 or r < 0.4:
            if rng.random() < 0.2:
                return [rng.choice(["1", "2", "3"])]
            ctx["n"] += 1
            return [names[ctx["n"] % 26] + ("" if ctx["n"] < 26 else str(ctx["n"] // 26))]
        if r < 0.65:
            return ["("] + g_expr(depth + 1, ctx) + [")"]
        if r < 0.78 and not ctx["br"]:
            ctx["br"] = True
            t = ["["] + g_expr(depth + 1, ctx) + ["]"]
            ctx["br"] = False
            return t
        if r < 0.9:
            return g_item(depth + 1, ctx) + ["..."]
        return ["("] + g_item(depth + 1, ctx) + [" ", "+", " "] + g_item(depth + 1, ctx) + [")"]

    def g_expr(depth, ctx):
        toks = []
        for k in range(rng.randint(1, 3)):
            if k:
                toks.append(" ")
            toks += g_item(depth, ctx)
        return toks

    for i in range(max(1, spec["nrandom"] * 3 // 8)):
        ctx = {"n": rng.randint(0, 20), "br": False}
        toks = g_expr(0, ctx)
        for _ in range(rng.choice([0, 0, 1, 2])):
            toks += [",", " "] + g_expr(0, ctx)
        if rng.random() < 0.5:
            toks += [" ", "->", " "] + g_expr(0, ctx)
        check_string("".join(toks), toks, True)
        out.count("grammar_strings")
        if i < 1:
            out.sample({"kind": "grammar", "string": "".join(toks)})

    # ---- random longer sequences and hostile characters
    for i in range(spec["nrandom"]):
        mode = rng.random()
        if mode < 0.6:
            toks = [rng.choice(ALPHA) for _ in range(rng.randint(L + 1, 16))]
        elif mode < 0.9:
            toks = [rng.choice(WIDE) for _ in range(rng.randint(1, 14))]
        else:
            toks = [chr(rng.choice([rng.randint(32, 126), rng.randint(0, 0x2FF), rng.randint(0x4E00, 0x4E20)])) for _ in range(rng.randint(1, 12))]
        s = "".join(toks)
        # the gap rule needs the real token boundaries: only pad sequences over ALPHA
        check_string(s, toks if mode < 0.6 else None, True)
        out.count("random_strings")
        if i < 2:
            out.sample({"kind": "random", "string": s})


def finalize(agg, tier, seed):
    c = agg.counters
    L = 5 if tier == "quick" else 6
    expected = sum(13**k for k in range(1, L + 1))
    cov = {"exhaustive": c.get("enumerated", 0) == expected, "enumeration_bound_tokens": L, "enumerated_strings": int(c.get("enumerated", 0)), "expected_enumerated": expected}
    if c.get("enumerated", 0) != expected:
        agg.inconclusive.append(f"enumeration incomplete: {c.get('enumerated', 0)} of {expected}")
    for k in ("accepted", "rejected_located", "reprint_checked", "spacing_variants", "public_calls", "grammar_strings"):
        if c.get(k, 0) == 0:
            agg.inconclusive.append(f"monitor counter {k} is zero")
    return cov


def replay(rec, out):
    from einx._src.namedtensor.stage1 import parse_op

    s = rec["witness"].get("padded") or rec["witness"].get("string")
    try:
        t = parse_op(s)
        print("parse ok:", str(t))
    except BaseException as e:
        print(type(e).__name__, str(e)[:500])
    return False
