"""C04 - generated source is a faithful, self-contained compilation of the traced graph.

Workload 1: every generated call (all families incl. update ops, factories, adapters) is compiled
by the real einx with the hooks on; the captured (graph, function, text) triple is checked:
text of graph=True == text of the cache entry == what einx exec()s (audit hook); exec(text) in a
namespace holding only the listed constants gives a function whose outputs and argument side
effects equal the IR interpreter I on the same graph. Workload 2: synthetic IR graphs built with
the public tracer constructors, with call-count instrumentation for 'computed once'.
"""
import random
import re

import numpy as np

ID = "C04"
LEVEL = "exploration"
RULE = (
    "captured: each distinct traced graph of G's cases (all families, three numpy backends) checked once on the case's data; synthetic: random IR graphs (calls, in-place calls on "
    "fresh copies, getattr/getitem with slices, item updates, operators, asserts, builtins, constants, tuple/list/dict outputs, values used 0/1/many times, nested graphs with closures) "
    "compiled by the real code generator and compared with the interpreter incl. per-object evaluation counts; distinct by generated text with integer literals abstracted; "
    "non-trivial if the text has >= 3 statements"
)
ASSUMPTIONS = [
    "the IR interpreter I (vf/ref/graph.py) defines 'direct evaluation node by node': memoised, depth-first, outer-scope nodes of a nested graph evaluated at closure creation",
    "synthetic graphs are restricted to patterns with a call-count independent meaning (readers of a value that is later updated in place are ancestors of the update)",
]
TIMEOUT = {"quick": 900, "thorough": 7200}


def shards(tier, seed, scale):
    n = 16 if tier == "quick" else 64
    return [{"n": int((120 if tier == "quick" else 1200) * scale), "nsyn": int((250 if tier == "quick" else 4000) * scale), "maxlen": 4} for _ in range(n)]


_INT = re.compile(r"(?<![A-Za-z_])\d+")


def abstract_text(code):
    return _INT.sub("N", code)


def top_level_functions(text):
    import ast
    try:
        return [n.name for n in ast.parse(text).body if isinstance(n, ast.FunctionDef)]
    except SyntaxError:
        return []


def free_names(text):
    """Names the generated module loads without binding them itself (and that are not builtins): its external constants."""
    import ast
    import builtins
    tree = ast.parse(text)
    bound, loaded = set(), set()
    for n in ast.walk(tree):
        if isinstance(n, ast.Name):
            (loaded if isinstance(n.ctx, ast.Load) else bound).add(n.id)
        elif isinstance(n, ast.FunctionDef):
            bound.add(n.name)
            for a in n.args.posonlyargs + n.args.args + n.args.kwonlyargs:
                bound.add(a.arg)
            if n.args.vararg:
                bound.add(n.args.vararg.arg)
            if n.args.kwarg:
                bound.add(n.args.kwarg.arg)
        elif isinstance(n, ast.alias):
            bound.add((n.asname or n.name).split(".")[0])
    return {x for x in loaded - bound if not hasattr(builtins, x)}


def count_assert_nodes(graph):
    """Number of distinct Assert applications reachable from the graph's outputs (None if the walk fails)."""
    import einx._src.tracer as tracer
    P = tracer.signature.python
    seen, asserts = set(), set()

    def rec(x):
        if isinstance(x, (tuple, list)):
            for a in x:
                rec(a)
        elif isinstance(x, dict):
            for a in x.values():
                rec(a)
        elif isinstance(x, tracer.Graph):
            if id(x) not in seen:
                seen.add(id(x))
                rec(x.output)
        elif isinstance(x, tracer.Tracer) and x.origin is not None and id(x.origin) not in seen:
            o = x.origin
            seen.add(id(o))
            if isinstance(o, P.Assert):
                asserts.add(id(o))
            for v in vars(o).values():
                if isinstance(v, (tracer.Tracer, tracer.Graph, tuple, list, dict)):
                    rec(v)

    try:
        rec(graph)
    except Exception:  # noqa
        return None
    return len(asserts)


def check_record(case, rec, value, args_after, out, backend):
    """All C04 monitors for one captured compilation."""
    import einx._src.tracer as tracer
    from .. import hooks
    from ..capture import fresh_args, same_value
    from ..ref.graph import Interp

    cj = case.to_json() if hasattr(case, "to_json") else case
    text = rec.code
    out.count("records")
    # (a2) what einx exec()s is compile(text)
    if hooks.exec_events:
        if not any(co == compile(text, co.co_filename, "exec") for co in hooks.exec_events):  # (same pseudo file name as the executed code object)
            out.violation({"kind": "executed-code-differs-from-text"}, {"case": cj, "text": text}, "the code object einx exec()s is not compile(text)")
        else:
            out.count("audit_exec_matches")
    # root-inlined graph: no function in the text
    top_defs = top_level_functions(text)
    if not isinstance(rec.compiled_graph, tracer.Graph) or not top_defs:
        out.violation({"kind": "text-defines-no-function", "graph_type": type(rec.compiled_graph).__name__}, {"case": cj, "text": text}, f"generated text defines no function: {text!r}")
        return
    # every Assert node of the graph is an assert statement of the text
    n_assert_nodes = count_assert_nodes(rec.compiled_graph)
    n_assert_lines = sum(1 for l in text.splitlines() if l.strip().startswith("assert "))
    if n_assert_nodes is not None:
        if n_assert_nodes != n_assert_lines:
            out.violation({"kind": "assert-nodes-differ-from-assert-statements"}, {"case": cj, "text": text, "graph_asserts": n_assert_nodes, "text_asserts": n_assert_lines}, f"the graph has {n_assert_nodes} Assert nodes, the text {n_assert_lines} assert statements")
            return
        if n_assert_nodes:
            out.count("records_with_asserts")
    # (b) exec in an empty namespace + listed constants
    # constants = the free names of the text (loaded, but neither imported, defined, assigned nor builtin); each must be named in a header comment
    used = free_names(text)
    commented = set(re.findall(r"[A-Za-z_]\w*", "\n".join(l for l in text.splitlines() if l.lstrip().startswith("#"))))
    consts = sorted(used)
    if consts:
        out.count("records_with_constants")
    if not used <= commented:
        out.violation({"kind": "header-constants-differ-from-body"}, {"case": cj, "text": text, "in_comments": sorted(commented & set(getattr(rec.fn, "__globals__", {}))), "body": sorted(used)}, f"the body uses the constants {sorted(used - commented)} that no header comment lists")
        return
    ns = {}
    g = getattr(rec.fn, "__globals__", {})
    for c in consts:
        if c not in g:
            out.violation({"kind": "listed-constant-missing"}, {"case": cj, "text": text, "const": c}, f"constant {c} listed in the header but not in the function's namespace")
            return
        ns[c] = g[c]
    try:
        exec(text, ns, ns)
        fn2 = ns[getattr(rec.fn, "__name__", None) if getattr(rec.fn, "__name__", None) in top_defs else top_defs[-1]]
    except Exception as e:
        out.violation({"kind": "text-not-self-contained", "exc": type(e).__name__}, {"case": cj, "text": text, "error": str(e)[:200]}, f"exec(text) in a namespace holding only the listed constants fails: {type(e).__name__}: {e}")
        return
    # (a3) the running function is the 'op' of that text
    if getattr(rec.fn, "__code__", None) != fn2.__code__:
        out.violation({"kind": "running-function-is-not-text"}, {"case": cj, "text": text}, "the cached callable's code object differs from compile(text)'s op")
    else:
        out.count("function_matches_text")
    # interpreter vs exec'd text on fresh copies: outputs and argument side effects
    a_text = fresh_args(case)
    a_int = fresh_args(case)
    try:
        r_text = ("ok", fn2(*a_text))
    except Exception as e:
        r_text = ("exc", type(e).__name__)
    it = Interp(rec.compiled_graph)
    try:
        r_int = ("ok", it(*a_int))
    except NotImplementedError:
        out.count("interpreter_unsupported")
        return
    except Exception as e:
        r_int = ("exc", type(e).__name__)
    for k, n in it.kinds.items():
        out.count(f"node:{k}", n)
    if r_text[0] != r_int[0] or (r_text[0] == "exc" and r_text[1] != r_int[1]):
        out.violation({"kind": "compiled-vs-interpreted-outcome", "text": r_text[1] if r_text[0] == "exc" else "ok", "interp": r_int[1] if r_int[0] == "exc" else "ok"}, {"case": cj, "text": text},
                      f"compiled text -> {r_text[0]} {r_text[1] if r_text[0]=='exc' else ''}, interpreter -> {r_int[0]} {r_int[1] if r_int[0]=='exc' else ''}")
        return
    if r_text[0] == "ok":
        if not same_value(r_text[1], r_int[1]):
            out.violation({"kind": "compiled-vs-interpreted-value"}, {"case": cj, "text": text}, f"compiled text and node-by-node interpretation differ for {getattr(case, 'op', '?')}({case.desc()!r})")
            return
        for i, (u, v) in enumerate(zip(a_text, a_int)):
            if isinstance(u, np.ndarray) and not np.array_equal(u, v, equal_nan=True):
                out.violation({"kind": "compiled-vs-interpreted-side-effect"}, {"case": cj, "text": text, "arg": i}, f"argument {i} after the call differs between compiled text and interpreter")
                return
        # and both agree with what the real call returned
        if value is not None and not same_value(r_text[1], value):
            out.violation({"kind": "text-vs-real-call-value"}, {"case": cj, "text": text}, "exec(text) result differs from the value einx returned")
            return
    out.count("compiled_equals_interpreted")
    if text.count("\n") >= 3:
        out.distinct_key(abstract_text(text))


def run(spec, out):
    import einx
    from ..gen import cases as G
    from .. import exec as X
    from .. import hooks
    from ..capture import capture, fresh_args, same_value

    rng = random.Random(spec["seed"])
    nprng = np.random.default_rng(spec["seed"])
    P = {"maxlen": spec["maxlen"]}
    fams = G.FAMILIES + ["update"]
    hooks.install()
    ring = []  # earlier compilations: (compiled function, case, value it returned then)

    def adapted_for(case):
        """Some cases go through an adapter of a user function, so that the graph carries Constant nodes (fresh adapter = fresh cache)."""
        if case.family == "reduce" and case.op in ("sum", "max", "min", "prod") and "keepdims" not in case.call_kwargs():
            base = getattr(np, case.op)
            if rng.random() < 0.5:
                # a keyword-only float option: it becomes a literal of the generated text and must arrive bit-exact
                def with_option(x, axis, *, vfscale, base=base):
                    return base(x, axis=axis) * vfscale
                ad = einx.numpy.adapt_numpylike_reduce(with_option)
                val = rng.choice([0.1 + 0.2, 2.0 ** -40, 1e-13, 1 / 3, 1.0000000000000002, 123456.78901234567, rng.random()])
                return lambda desc, *t, ad=ad, val=val, **kw: ad(desc, *t, vfscale=val, **kw)
            return einx.numpy.adapt_numpylike_reduce(lambda x, axis, base=base: base(x, axis=axis))
        if case.family == "elementwise" and len(case.inputs) == 2 and case.op in ("add", "subtract", "multiply", "maximum"):
            base = getattr(np, case.op)
            return einx.numpy.adapt_numpylike_elementwise(lambda a, b, base=base: base(a, b))
        return None

    for i in range(spec["n"]):
        case = G.generate(rng, nprng, family=rng.choice(fams), P=P)
        b = rng.choice([None, None, "numpy.numpylike", "numpy.einsum"])
        fn_adapted = adapted_for(case) if rng.random() < 0.6 else None
        if fn_adapted is not None:
            b = None
            out.count("adapter_cases")
        elif case.family in ("elementwise", "dot") and len(case.tensors) >= 2 and rng.random() < 0.4:
            # the last two tensors come from tensor factories: their run-time checks are Assert nodes of the graph and assert statements of the text
            ts = list(case.tensors)
            for j in (-1, -2):
                ts[j] = (lambda shape, t=np.array(ts[j], copy=True): t)
            case.tensors = ts
            out.count("factory_cases")
        status, val, rec, args_after = capture(case, b, fn=fn_adapted)
        out.evaluation()
        out.count(f"family:{case.family}")
        if rec is None or rec.code is None:
            out.count("no_record")  # cache hit or rejected before compilation
            continue
        if i < 2:
            out.sample({"case": case.to_json(), "backend": b, "text": rec.code})
        # (a1) graph=True returns the text of the same cache entry
        st2, text2 = X.einx_call(case, b, fresh_args(case), graph=True, fn=fn_adapted)
        if st2 == "ok":
            if text2 != rec.code:
                out.violation({"kind": "graph-true-text-differs-from-cached"}, {"case": case.to_json(), "cached": rec.code, "returned": text2}, f"graph=True text differs from the compiled entry for {case.op}({case.desc()!r})")
            else:
                out.count("graph_true_matches")
        check_record(case, rec, val if status == "ok" else None, args_after, out, b)
        # compiled functions are isolated from later compilations: an earlier one, called again, still returns what it returned then
        if ring:
            fn0, case0, val0 = ring[rng.randrange(len(ring))]
            try:
                again = ("ok", fn0(*fresh_args(case0)))
            except Exception as e:  # noqa
                again = ("exc", type(e).__name__)
            if again[0] != "ok" or not same_value(again[1], val0):
                out.violation({"kind": "compiled-function-changed-by-later-compilation"}, {"earlier": case0.to_json(), "later": case.to_json(), "text_of_later": rec.code},
                              f"the function compiled earlier for {case0.op}({case0.desc()!r}) behaves differently after compiling {case.op}({case.desc()!r}): {again[0]} {again[1] if again[0] == 'exc' else ''}")
            else:
                out.count("earlier_function_unchanged")
        if status == "ok" and rec.fn is not None and callable(rec.fn):
            ring.append((rec.fn, case, val))
            if len(ring) > 12:
                ring.pop(rng.randrange(len(ring)))
    from . import c04_synth
    c04_synth.run_synthetic(spec, out, rng)


def finalize(agg, tier, seed):
    c = agg.counters
    for k in ("records", "audit_exec_matches", "function_matches_text", "graph_true_matches", "compiled_equals_interpreted", "synthetic_checked", "records_with_constants", "records_with_asserts", "earlier_function_unchanged", "synthetic_earlier_function_unchanged"):
        if c.get(k, 0) < 50:
            agg.inconclusive.append(f"monitor counter {k} = {c.get(k, 0)}")
    return {"node_kinds": {k[5:]: int(v) for k, v in c.items() if k.startswith("node:")}}
