"""C09 - arguments are never modified (except the documented in-place *_at target).

The argument sanitizer A snapshots bytes/shape/dtype/strides/flags of every argument before and
after each call, and a read-only mode (writeable=False) turns any write attempt into numpy's own
"destination is read-only" error. A is also active in C01/C07/C08/C13/C14/C15; this check
concentrates layouts x ops x cached/uncached, graph=True, solve_*/matches, sequence-valued keyword
sizes and wrong-arity calls of fixed-arity scalar ops.
"""
import random

import numpy as np

ID = "C09"
LEVEL = "exploration"
RULE = (
    "G cases of every family incl. update ops, each executed with every argument in a drawn memory layout (C, Fortran, transposed view, negative-stride view, "
    "strided view, read-only) once uncached and once cached, plus graph=True, solve_axes/solve_shapes/matches on the same arguments, list/ndarray keyword sizes, "
    "wrong-arity calls of fixed-arity scalar ops, and 40 fixed calls of all families on tensors of >= 2**16 elements (coordinate dtypes int64/int32/intp, 3 backends, 2 layouts); distinct by (op, layout, skeleton); non-trivial if a non-contiguous or read-only layout is involved"
)
ASSUMPTIONS = ["the first tensor of set_at/add_at/subtract_at (and any alias of it) is exempt as to its contents when it is writeable; its flags, shape and dtype are not exempt (also for a read-only target, where the call may fail)", "a 'destination is read-only' failure on a non-exempt argument counts as a write attempt"]
TIMEOUT = {"quick": 900, "thorough": 7200}


def shards(tier, seed, scale):
    n = 16 if tier == "quick" else 64
    per = int((130 if tier == "quick" else 1500) * scale)
    return [{"n": per, "maxlen": 4} for _ in range(n)]


def guarded(out, label, fn, args, kwargs, exempt=(), case_json=None, write_attempt_ok=()):
    """Run fn under the sanitizer; report changes and read-only write attempts."""
    from ..argsan import Guard
    out.evaluation()
    with Guard(args, kwargs, exempt=exempt) as g:
        try:
            fn()
            status = "ok"
        except Exception as e:  # noqa
            status = "exc"
            msg = str(e)
            if "read-only" in msg or "readonly" in msg:
                ro = [i for i, a in enumerate(args) if isinstance(a, np.ndarray) and not a.flags.writeable and i not in exempt and i not in write_attempt_ok]
                if ro:
                    out.violation({"kind": "write-attempt-on-readonly-argument", "label": label.split(":")[0]}, {"label": label, "case": case_json, "message": msg[:300]}, f"{label}: write attempt on a read-only argument: {msg[:120]}")
    for pos, what in g.changed:
        out.violation({"kind": "argument-modified", "label": label.split(":")[0], "what": what}, {"label": label, "case": case_json, "pos": pos}, f"{label}: argument {pos} modified ({what})")
    out.count(f"status:{status}")
    return status


def run(spec, out):
    import einx
    from ..gen import cases as G
    from ..gen.cases import relayout, LAYOUTS
    from .. import exec as X

    rng = random.Random(spec["seed"])
    nprng = np.random.default_rng(spec["seed"])
    P = {"maxlen": spec["maxlen"], "dtype_p": 0.25}
    fams = G.FAMILIES + ["update"]
    for i in range(spec["n"]):
        case = G.generate(rng, nprng, family=rng.choice(fams), P=P)
        cj = case.to_json()
        layout = rng.choice(["transposed", "negstride", "broadcast", "readonly", "fortran", "c"])
        out.count(f"layout:{layout}")
        out.count(f"family:{case.family}")
        if layout != "c":
            out.distinct_key(f"{case.op}|{layout}|{case.skeleton()}")
        if i < 2:
            out.sample({"layout": layout, **cj})
        exempt = {0} if case.family == "update" else set()
        tensors = [relayout(t, layout) for t in case.tensors]
        ro_target = False
        if case.family == "update" and layout == "readonly":
            if rng.random() < 0.5:
                tensors[0] = np.array(case.tensors[0], copy=True)  # the target may legitimately be written
            else:
                # a read-only target: numpy may refuse the write (an error is fine; np.add.at / np.subtract.at do write through the flag, which
                # is numpy's doing and within the documented exception); the target's flags, shape and dtype stay as they were
                ro_target = True
                out.count("readonly_update_targets")
        kw = case.call_kwargs()
        # keyword sizes as mutable containers
        kw2 = {}
        for k, v in kw.items():
            if isinstance(v, tuple) and rng.random() < 0.5:
                kw2[k] = list(v)
            elif isinstance(v, int) and not isinstance(v, bool) and rng.random() < 0.2:
                kw2[k] = np.asarray(v)
            else:
                kw2[k] = v
        f = getattr(einx, case.op)
        b = rng.choice([None, "numpy", "numpy.numpylike", "numpy.einsum"])
        bk = {} if b is None else {"backend": b}
        desc = case.desc()
        # uncached, then cached
        # with a read-only target numpy's refusal concerns the target; which argument a "read-only" error refers to cannot be told from the message,
        # so that monitor is off for these calls (it is on for the other half, where the target is writeable)
        wok = tuple(range(len(tensors))) if ro_target else ()
        guarded(out, f"{case.op}:first", lambda: f(desc, *tensors, **kw2, **bk), tensors, kw2, exempt, cj, write_attempt_ok=wok)
        guarded(out, f"{case.op}:cached", lambda: f(desc, *tensors, **kw2, **bk), tensors, kw2, exempt, cj, write_attempt_ok=wok)
        guarded(out, f"{case.op}:graph", lambda: f(desc, *tensors, graph=True, **kw2, **bk), tensors, kw2, set(), cj)
        # solve_* / matches on the input expressions
        indesc = desc.split("->")[0]
        sizekw = {k: v for k, v in kw2.items() if k in case.kwargs}
        for name in ("solve_axes", "solve_shapes", "matches"):
            fn = getattr(einx, name)
            guarded(out, f"{name}:call", lambda: fn(indesc, *tensors, **sizekw), tensors, sizekw, set(), cj)
    # large tensors (>= 2**16 elements per argument, beyond G's size limit): size-gated fast paths (in-place scaling of index arrays,
    # views instead of copies for big inputs) must not write to arguments either; coordinate dtypes int64 / int32 / intp
    if spec.get("shard", 0) % 4 == 0:
        N = 1 << 16
        big = []
        for cdt in (np.int64, np.int32, np.intp):
            co2 = nprng.integers(0, 20, size=(N + 7, 2)).astype(cdt)
            co1 = nprng.integers(0, 20, size=(N + 7,)).astype(cdt)
            tgt = nprng.normal(size=(20, 20, 3))
            big += [
                ("get_at", "[h w] c, p [2] -> p c", [tgt, co2], {}, set()),
                ("get_at", "[h] w c, p -> p w c", [tgt, co1[:4000]], {}, set()),
                ("get_at", "[h w] c, p, p -> p c", [tgt, co1, co1[::-1].copy()], {}, set()),
                ("get_at", "b [h] c, b p -> b p c", [tgt, nprng.integers(0, 20, size=(20, N // 16)).astype(cdt)], {}, set()),
                ("get_at", "[h w c], p [3] -> p", [tgt, nprng.integers(0, 3, size=(N + 1, 3)).astype(cdt)], {}, set()),
                ("add_at", "[h w] c, p [2], p c -> [h w] c", [tgt.copy(), co2, np.ones((N + 7, 3))], {}, {0}),
                ("set_at", "[h w] c, p [2], c -> [h w] c", [tgt.copy(), co2, np.ones(3)], {}, {0}),
                ("subtract_at", "[h] w c, p, p c -> [h] w c", [tgt.copy(), co1, np.ones((N + 7, 3))], {}, {0}),
            ]
        xl = nprng.normal(size=(N * 2,))
        xm = nprng.normal(size=(256, 300))
        big += [
            ("sort", "(a [b])", [xl.copy()], {"b": 16}, set()), ("argsort", "(a [b])", [xl.copy()], {"b": 16}, set()), ("sort", "a [b]", [xm.copy()], {}, set()),
            ("roll", "(a [b])", [xl.copy()], {"b": 8, "shift": 3}, set()), ("flip", "(a [b])", [xl.copy()], {"b": 8}, set()), ("softmax", "a [b]", [xm.copy()], {}, set()),
            ("sum", "(a [b])", [xl.copy()], {"b": 4}, set()), ("max", "[a] b", [xm.copy()], {}, set()), ("id", "(a b) -> b a", [xl.copy()], {"b": 2}, set()),
            ("id", "a b -> (b a)", [xm.copy()], {}, set()), ("add", "a b, b", [xm.copy(), np.ones(300)], {}, set()), ("multiply", "a b, a b", [xm.copy(), xm.copy()], {}, set()),
            ("dot", "a [b], [b] c -> a c", [xm.copy(), nprng.normal(size=(300, 250))], {}, set()), ("argmax", "a [b]", [xm.copy()], {}, set()), ("id", "a b -> a b 2", [xm.copy()], {}, set()),
            ("id", "(a + b) -> a, b", [xl.copy()], {"a": N}, set()),
        ]
        for op, d, tens, kw, exempt in big:
            f = getattr(einx, op)
            for b in (None, "numpy.numpylike", "numpy.einsum"):
                bk = {} if b is None else {"backend": b}
                for layout in ("c", rng.choice(["transposed", "negstride", "fortran"])):
                    ts = [relayout(t, layout) if i not in exempt else t for i, t in enumerate(tens)]
                    cjb = {"op": op, "desc": d, "shapes": [list(np.shape(t)) for t in ts], "dtypes": [str(np.asarray(t).dtype) for t in ts], "backend": b, "layout": layout}
                    out.count("large_tensor_calls")
                    out.distinct_key(f"large|{op}|{d}|{cjb['dtypes']}|{layout}|{b}")
                    st = guarded(out, f"{op}:large", lambda: f(d, *ts, **kw, **bk), ts, kw, exempt, cjb)
                    if st == "ok":
                        out.count("large_tensor_calls_ok")
    # read-only targets of the three update ops, 1-D and 2-D, scalar and tensor coordinates: the flags stay
    for op in ("set_at", "add_at", "subtract_at"):
        for d, mk in (("[h], p, p -> [h]", lambda: [np.arange(5.0), np.array([1, 3]), np.array([10.0, 20.0])]),
                      ("[h], , -> [h]", lambda: [np.arange(5.0), np.array(2), np.array(7.0)]),
                      ("b [h], b p, b p -> b [h]", lambda: [np.arange(10.0).reshape(2, 5), np.array([[1, 3], [0, 0]]), np.ones((2, 2))]),
                      ("[h] c, p, p c -> [h] c", lambda: [np.arange(10.0).reshape(5, 2), np.array([1, 3]), np.ones((2, 2))])):
            for b in (None, "numpy.numpylike"):
                ts = mk()
                ts[0].setflags(write=False)
                bk = {} if b is None else {"backend": b}
                out.distinct_key(f"readonly-target|{op}|{d}|{b}")
                out.count("readonly_update_targets")
                guarded(out, f"{op}:readonly-target", lambda: getattr(einx, op)(d, *ts, **bk), ts, {}, {0}, {"op": op, "desc": d, "backend": b}, write_attempt_ok=(0,))
    # wrong-arity calls of fixed-arity scalar ops: an extra tensor must not be written
    binary = ["subtract", "true_divide", "floor_divide", "divide", "less", "less_equal", "greater", "greater_equal", "equal", "not_equal"]
    for op in binary:
        for extra in (1, 2):
            for dt in (np.float64, np.int64, np.bool_):
                xs = [np.arange(1, 5).astype(np.float64), np.arange(2, 6).astype(np.float64)] + [np.full(4, 9).astype(dt) for _ in range(extra)]
                d = ", ".join(["a"] * len(xs)) + " -> a"
                f = getattr(einx, op)
                out.distinct_key(f"wrong-arity|{op}|{extra}|{np.dtype(dt).name}")
                guarded(out, f"{op}:wrong-arity", lambda: f(d, *xs), xs, {}, set(), {"op": op, "desc": d, "dtypes": [str(x.dtype) for x in xs]})
    # associative scalar operations with three and four operands (valid calls): every operand is read-only, also the last one
    for op in ("logical_and", "logical_or", "logical_xor", "add", "multiply", "maximum", "minimum", "logaddexp"):
        if not hasattr(einx, op):
            continue
        for nops in (3, 4):
            for dt in (np.float64, np.bool_, np.int64):
                for d_last in ("a b", "b a"):
                    xs = [(np.arange(6).reshape(2, 3) % (k + 2)).astype(dt) for k in range(nops - 1)] + [(np.arange(6).reshape((2, 3) if d_last == "a b" else (3, 2)) % 2).astype(dt)]
                    d = ", ".join(["a b"] * (nops - 1) + [d_last]) + " -> a b"
                    f = getattr(einx, op)
                    out.distinct_key(f"nary|{op}|{nops}|{np.dtype(dt).name}|{d_last}")
                    out.count("nary_scalar_op_calls")
                    guarded(out, f"{op}:nary", lambda: f(d, *xs), xs, {}, set(), {"op": op, "desc": d, "dtypes": [str(x.dtype) for x in xs]})
    for extra in (1,):
        xs = [np.array([True, False, True, False]), np.arange(4.0), np.arange(4.0) + 10, np.full(4, 9.0)]
        guarded(out, "where:wrong-arity", lambda: einx.where("a, a, a, a -> a", *xs), xs, {}, set(), {"op": "where"})


def finalize(agg, tier, seed):
    c = agg.counters
    for lay in ("transposed", "negstride", "broadcast", "readonly", "fortran"):
        if c.get(f"layout:{lay}", 0) < 20:
            agg.inconclusive.append(f"layout {lay} observed only {c.get(f'layout:{lay}', 0)} times")
    if c.get("large_tensor_calls_ok", 0) < 100:
        agg.inconclusive.append(f"only {c.get('large_tensor_calls_ok', 0)} successful calls with large tensors")
    if c.get("readonly_update_targets", 0) < 20:
        agg.inconclusive.append(f"only {c.get('readonly_update_targets', 0)} update calls with a read-only target")
    if c.get("status:ok", 0) < 500:
        agg.inconclusive.append("fewer than 500 successful guarded calls")
    return {"layouts": {k[7:]: int(v) for k, v in c.items() if k.startswith("layout:")}}
