"""C02 - axis and rank solving is sound, unambiguous and exact.

Random expression lists (flatten, concat, ellipsis, numbers, repeated names) with consistent,
inconsistent and under-determined shapes/keyword sizes are given to einx.solve_axes,
einx.solve_shapes and einx.matches; the oracle is S (brute force for soundness/ambiguity,
propagation for completeness and for sizes >= 2**31).
"""
import math
import random

import numpy as np

ID = "C02"
LEVEL = "exploration"
RULE = (
    "systems of 1-3 tensor expressions over <=5 axis names with nesting ( ), '+', '...', numbers and repeated names; shapes known / None; keyword subsets; "
    "variants: consistent, one dimension perturbed, keyword contradicted, keyword dropped, zero/negative keyword, sizes up to 2**40 (propagation-only); "
    "distinct by (skeleton of the expression list, variant, which shapes are known); non-trivial if the system has a flatten/concat/ellipsis node"
)
ASSUMPTIONS = [
    "brute force bounds every axis by the dimension it sits in (positive integers), probe range 1..3 for axes touching no known dimension",
    "when brute force says unique but propagation is stuck, both a correct value and RankError/AxisSizeError are accepted",
]
TIMEOUT = {"quick": 900, "thorough": 7200}


def shards(tier, seed, scale):
    n = 16 if tier == "quick" else 64
    per = int((140 if tier == "quick" else 1500) * scale)
    return [{"n": per} for _ in range(n)]


def gen_system(rng):
    from ..gen.expr import Ax, Num, Flat, Cat, Ell
    from ..gen.cases import Namer, SIZE_POOL

    namer = Namer(rng, long_p=0.05)
    nn = rng.randint(1, 5)
    names = [namer.new() for _ in range(nn)]
    ell = {}
    truth = {}
    for n in names:
        if rng.random() < 0.15:
            r = rng.choice([0, 1, 2, 2, 3])
            ell[n] = f"g:{n}"
            truth[n] = [rng.choice(SIZE_POOL) for _ in range(r)]
        else:
            truth[n] = [rng.choice(SIZE_POOL)]

    def leaf():
        if rng.random() < 0.12:
            return Num(rng.choice([1, 2, 3]))
        n = rng.choice(names)
        if n in ell:
            return Ell([Ax(n)], ell[n])
        return Ax(n)

    def dim(depth=0):
        r = rng.random()
        if depth >= 2 or r < 0.55:
            return leaf()
        if r < 0.88:
            return Flat([dim(depth + 1) for _ in range(rng.choice([2, 2, 3]))])
        items = []
        for _ in range(rng.choice([2, 2, 3])):
            c = dim(depth + 1)
            if isinstance(c, Cat):
                c = Flat([c, leaf()])  # '+' operands are axes or flattened axes, never another '+' group directly
            elif isinstance(c, Ell):
                c = Flat([c])
            items.append(c)
        return Cat(items)

    if rng.random() < 0.12:
        # an ellipsis written around a comma: 'P (e1, e2)... S' stands for 'P (e1)... S, P (e2)... S' with ONE repetition count
        from ..gen.expr import pr
        k = rng.choice([2, 2, 3])
        r = rng.choice([0, 1, 2, 2, 3])
        group = "g:comma"
        bodies = []
        for _ in range(k):
            def fresh():
                n = namer.new()
                names.append(n)
                ell[n] = group
                truth[n] = [rng.choice(SIZE_POOL) for _ in range(r)]
                return Ax(n)
            c = rng.random() if bodies else 0.0  # the first body always carries a name (the harness reads the repetition count off a name)
            if c < 0.55:
                body = [fresh()]
            elif c < 0.7:
                body = [Num(rng.choice([1, 2, 3]))]
            elif c < 0.9:
                body = [Flat([fresh(), rng.choice([fresh, lambda: Num(rng.choice([2, 3]))])()])]
            else:
                body = [fresh(), fresh()]
            bodies.append(body)
        outer = [n for n in names if ell.get(n) != group]
        def odim():
            # prefix / suffix dimensions use only names from outside the comma group
            for _ in range(20):
                d = dim()
                from ..gen.expr import walk
                if not any(isinstance(m, Ax) and ell.get(m.name) == group for m in walk([d])):
                    return d
            return Num(2)
        pre = [odim() for _ in range(rng.randint(0, 2))] if outer else []
        suf = [odim() for _ in range(rng.randint(0, 1))] if outer else []
        from ..gen.expr import copy_expr
        exprs = [copy_expr(pre) + [Ell([Flat(copy_expr(b))], group)] + copy_expr(suf) for b in bodies]
        text = " ".join(x for x in [pr(pre), "(" + ", ".join(pr(b) for b in bodies) + ")...", pr(suf)] if x)
        return exprs, truth, ell, text
    nt = rng.randint(1, 3)
    exprs = [[dim() for _ in range(rng.randint(0, 3))] for _ in range(nt)]
    return exprs, truth, ell, None


def skeleton(exprs):
    from ..gen.expr import Ax, Num, Flat, Cat, Ell, pr
    ren = {}

    def r(items):
        out = []
        for n in items:
            if isinstance(n, Ax):
                out.append(Ax(ren.setdefault(n.name, f"x{len(ren)}")))
            elif isinstance(n, Num):
                out.append(Ax(str(n.value)))
            elif isinstance(n, Ell):
                out.append(Ell(r(n.items), n.group, n.anon))
            else:
                out.append(type(n)(r(n.items)))
        return out

    return ", ".join(pr(r(e)) for e in exprs)


def oracle(exprs, shapes, kwargs):
    """Brute force over repetition counts and sizes + propagation. Returns None if the search space is too large."""
    from ..ref import solver as S
    from ..gen.expr import expand, xleaves, xshape, xvalue

    res = {"status": None, "prop": None}
    try:
        sols_r = S.rank_brute(exprs, shapes, kwargs)
    except NotImplementedError:
        return None
    prop = S.propagate(exprs, shapes, kwargs)
    res["prop"] = "derived" if (prop.rank == "derived" and prop.value == "derived") else ("contradiction" if "contradiction" in (prop.rank, prop.value) else "stuck")
    res["prop_sizes"] = prop.sizes if res["prop"] == "derived" else None
    allsols = []
    res["xexprs_list"] = []
    for reps in sols_r:
        xexprs = [expand(e, reps) for e in exprs]
        res["xexprs_list"].append(xexprs)
        try:
            known = S.leaf_kwargs(xexprs, kwargs)
        except S.Contradiction:
            continue
        vs = S.value_brute(xexprs, shapes, known, S.numvals_of(exprs, xexprs))
        if vs is None:
            return None
        for v in vs:
            allsols.append((reps, xexprs, v))
    if not allsols:
        res["status"] = "none"
        return res
    # per axis (template name): the set of value tuples over all solutions; unbounded axes are ambiguous
    axes_sets = {}
    shape_sets = [set() for _ in exprs]
    unbounded = set()
    for reps, xexprs, v in allsols:
        bounded = set()
        for e, s in zip(xexprs, shapes):
            if s is not None:
                bounded |= {l.name for l in xleaves(e)}
        bounded |= {l.name for e in xexprs for l in xleaves(e) if l.tname in kwargs or l.isnum}
        per = {}
        for e in xexprs:
            for l in xleaves(e):
                if l.isnum:
                    continue
                per.setdefault(l.tname, {})[l.name] = v[l.name]
                if l.name not in bounded:
                    unbounded.add(l.tname)
        for t, d in per.items():
            axes_sets.setdefault(t, set()).add(tuple(sorted(d.items())))
        # template names with zero repetitions still count as a (different) solution
        for k, e in enumerate(xexprs):
            shape_sets[k].add(tuple(xvalue(n, v) for n in e))
            if any(l.name not in bounded for l in xleaves(e)):
                shape_sets[k].add(("unbounded",))
    from ..gen.expr import walk, Ax
    tnames = {n.name for e in exprs for n in walk(e) if isinstance(n, Ax)}
    for t in tnames:
        if t not in axes_sets:
            axes_sets[t] = {()}
        elif len({len(x) for x in axes_sets[t]}) == 1 and any(len(allsols[0][0]) and True for _ in [0]):
            pass
    # a name missing in some solutions (zero repetitions there) differs from solutions where it is present
    nsol = len(allsols)
    counts = {}
    for reps, xexprs, v in allsols:
        present = {l.tname for e in xexprs for l in xleaves(e) if not l.isnum}
        for t in tnames:
            counts[t] = counts.get(t, 0) + (1 if t in present else 0)
    for t in tnames:
        if 0 < counts.get(t, 0) < nsol:
            axes_sets[t].add(("absent",))
    res["axes_sets"] = axes_sets
    res["shape_sets"] = shape_sets
    res["amb_axes"] = sorted(t for t in axes_sets if len(axes_sets[t]) > 1 or t in unbounded)
    res["amb_shapes"] = [k for k in range(len(exprs)) if len(shape_sets[k]) > 1]
    res["sizes"] = allsols[0][2]
    res["nsolutions"] = nsol
    res["status"] = "unique" if not res["amb_axes"] else "ambiguous"
    return res


def risk_tags(exprs, kwargs, big, xexprs_list=()):
    """Structural input classes with a hand-confirmed defect (see known_findings.json).

    isolated-composite: after writing out the ellipses, some flattened/concatenated group, or a
    contiguous run of >= 2 factors inside a flattened axis, taken together with all textually identical
    occurrences of it, uses only axis names that occur nowhere else and have no keyword size (this is
    what common-subexpression elimination replaces by one fresh axis).
    ellipsis-in-flatten: an ellipsis sits inside a flattened axis.
    """
    from ..gen.expr import Ax, Num, Flat, Cat, Ell, walk, Leaf, XFlat, XCat, xleaves
    tags = []
    if big:
        tags.append("big")
    iso = False

    def l_t(name):
        return name.split(".")[0]

    def xtext(n):
        if isinstance(n, Leaf):
            return str(n.name) if not n.isnum else "#" + str(n.tname)
        if isinstance(n, XFlat):
            return "(" + " ".join(xtext(c) for c in n.items) + ")"
        return "(" + " + ".join(xtext(c) for c in n.items) + ")"

    for xexprs in xexprs_list:
        # numbers print as their value (two equal numbers are textually the same sub-expression)
        def text_of(nodes):
            def t(n):
                if isinstance(n, Leaf):
                    return n.name if not n.isnum else "<num>"
                if isinstance(n, XFlat):
                    return "(" + " ".join(t(c) for c in n.items) + ")"
                return "(" + " + ".join(t(c) for c in n.items) + ")"
            return " ".join(t(n) for n in nodes)

        all_leaves = [l for e in xexprs for l in xleaves(e) if not l.isnum]
        occ = {}  # text -> list of occurrences (lists of nodes): whole groups and contiguous runs inside groups

        def rec(items, at_root):
            for n in items:
                if isinstance(n, (XFlat, XCat)):
                    occ.setdefault(text_of([n]), []).append([n])
                    rec(n.items, False)
            if not at_root and len(items) >= 2:
                for a_ in range(len(items)):
                    for b_ in range(a_ + 2, len(items) + 1):
                        occ.setdefault(text_of(items[a_:b_]), []).append(items[a_:b_])

        for e in xexprs:
            rec(e, True)
        for text, occs in occ.items():
            ids = {id(l) for o in occs for l in xleaves(o)}
            names = {l.name for o in occs for l in xleaves(o) if not l.isnum}
            if not names:
                continue
            if any(l_t(n) in kwargs for n in names):
                continue
            # every axis named inside the textually identical occurrences occurs only inside them
            if all(id(l) in ids for l in all_leaves if l.name in names):
                iso = True
                break
    ell_in_flat = any(isinstance(m, Ell) for e in exprs for n in walk(e) if isinstance(n, (Flat, Cat)) for m in walk(n.items))
    if iso:
        tags.append("isolated-composite")
    if ell_in_flat:
        tags.append("ellipsis-in-flatten")
    return tags


def st_none(orc):
    return orc["status"] == "none"


class CaseTimeout(BaseException):  # not an Exception: "except Exception" inside einx or sympy must not swallow the watchdog
    pass


def _alarm(signum, frame):
    raise CaseTimeout()


def run(spec, out):
    import signal
    import einx
    from ..gen.expr import pr, xleaves, expand, xshape, xvalue, walk, Num
    from ..ref import solver as S

    signal.signal(signal.SIGALRM, _alarm)
    rng = random.Random(spec["seed"])
    OKERR = (einx.errors.RankError, einx.errors.AxisSizeError)
    for i in range(spec["n"]):
        exprs, truth, ell, sugared = gen_system(rng)
        reps = {g: len(truth[n]) for n, g in ell.items()}
        xex = [expand(e, reps) for e in exprs]
        sizes = {}
        uid2val = {n.uid: n.value for e in exprs for n in walk(e) if isinstance(n, Num)}
        for e in xex:
            for l in xleaves(e):
                if l.isnum:
                    sizes[l.name] = uid2val[l.tname]
                else:
                    suffix = l.name[len(l.tname):]
                    idx = [int(t) for t in suffix.split(".") if t]
                    sizes[l.name] = truth[l.tname][idx[-1]] if idx else truth[l.tname][0]
        shapes = [list(xshape(e, sizes)) for e in xex]
        used = sorted({n.name for e in exprs for n in walk(e) if hasattr(n, "name")})
        variant = rng.choice(["consistent", "consistent", "perturb-dim", "contradict-kw", "drop-shape", "zero-kw", "big"])
        kwargs = {}
        for n in used:
            if rng.random() < 0.3 and len(truth[n]) > 0:
                kwargs[n] = truth[n][0] if n not in ell else tuple(truth[n])
        shp = [tuple(s) for s in shapes]
        if variant == "perturb-dim":
            cands = [(a, b) for a, s_ in enumerate(shp) for b in range(len(s_))]
            if cands:
                a, b = rng.choice(cands)
                s_ = list(shp[a]); s_[b] = max(1, s_[b] + rng.choice([-1, 1, 2])); shp[a] = tuple(s_)
        elif variant == "contradict-kw" and kwargs:
            k = rng.choice(sorted(kwargs))
            v = kwargs[k]
            kwargs[k] = (v + 1) if isinstance(v, int) else tuple(x + 1 for x in v)
        elif variant == "drop-shape":
            if shp:
                shp[rng.randrange(len(shp))] = None
        elif variant == "zero-kw" and used:
            k = rng.choice(used)
            if k not in ell:
                kwargs[k] = rng.choice([0, -1, -2])
        big = None
        if variant == "big":
            plain = [n for n in used if n not in ell]
            if plain:
                k = rng.choice(plain)
                f = rng.choice([2**31, 2**32 + 1, 2**33 // 3 * 3, 2**40])
                sizes2 = dict(sizes)
                for e in xex:
                    for l in xleaves(e):
                        if l.tname == k:
                            sizes2[l.name] = truth[k][0] * f
                shp = [tuple(xshape(e, sizes2)) for e in xex]
                if k in kwargs:
                    kwargs[k] = truth[k][0] * f
                big = k
        desc = ", ".join(pr(e) for e in exprs)
        if sugared is not None:
            desc = sugared  # the oracle works on the written-out system, einx gets the shorthand
            out.count("ellipsis_around_comma")
        out.count(f"variant:{variant}")
        tensors = []
        toobig = False
        for s_ in shp:
            if s_ is None:
                tensors.append(None)
            else:
                if math.prod(s_) > 2**62:
                    toobig = True
                    break
                tensors.append(np.broadcast_to(np.zeros((), dtype=np.int8), s_))
        if toobig:
            out.count("skipped_too_big")
            continue
        signal.alarm(45)
        try:
            if big is not None:
                prop = S.propagate(exprs, shp, kwargs)
                if not (prop.rank == "derived" and prop.value == "derived"):
                    out.count("big_not_derivable")
                    continue
                axes_sets = {}
                for e in prop.xexprs:
                    for l in xleaves(e):
                        if not l.isnum:
                            axes_sets.setdefault(l.tname, {})[l.name] = prop.sizes[l.name]
                orc = {"status": "unique", "prop": "derived", "prop_sizes": prop.sizes, "sizes": prop.sizes, "amb_axes": [], "amb_shapes": [],
                       "axes_sets": {t: {tuple(sorted(d.items()))} for t, d in axes_sets.items()},
                       "shape_sets": [{tuple(xvalue(n, prop.sizes) for n in e)} for e in prop.xexprs], "nsolutions": 1, "xexprs_list": [prop.xexprs]}
                out.count("big_cases")
            else:
                orc = oracle(exprs, shp, kwargs)
                if orc is None:
                    out.count("skipped_search_space")
                    continue
            out.evaluation()
            out.count(f"oracle:{orc['status']}")
            out.count(f"prop:{orc['prop']}")
            risk = "+".join(risk_tags(exprs, kwargs, big, orc.get("xexprs_list", ())))
            if risk:
                out.count(f"risk:{risk}")
            if any(c in desc for c in "(+."):
                out.distinct_key(f"{skeleton(exprs)}|{variant}|{[s_ is None for s_ in shp]}")
            witness = {"desc": desc, "shapes": [list(s_) if s_ is not None else None for s_ in shp], "kwargs": {k: (list(v) if isinstance(v, tuple) else v) for k, v in kwargs.items()},
                       "variant": variant, "oracle": orc["status"], "prop": orc["prop"], "nsolutions": orc.get("nsolutions")}
            if i < 2:
                out.sample(witness)
            for api in ("solve_axes", "solve_shapes"):
                try:
                    r = getattr(einx, api)(desc, *tensors, **kwargs)
                    got = ("ok", r)
                except CaseTimeout:
                    raise
                except Exception as e:  # noqa
                    got = ("exc", e)
                check_outcome(out, api, got, orc, witness, OKERR, risk)
            # matches() is solve_shapes() behind a bare except. einx's acceptance of systems that are unique only
            # by search can differ between repetitions (sympy path), so agreement is recorded, not demanded (C16
            # decides reproducibility).
            m = einx.matches(desc, *tensors, **kwargs)  # (a bare 'except:' in matches may swallow the watchdog: m is then False, which no rule below objects to)
            out.count("matches_consistent" if (got[0] == "ok") == bool(m) else "matches_flipped")
            if st_none(orc) and m:
                out.violation({"kind": "accepted-unsolvable", "api": "matches", "risk": risk}, witness, f"matches({desc!r}, shapes={witness['shapes']}, {witness['kwargs']}) is True but no assignment exists")
        except CaseTimeout:
            out.count("case_timeouts")
            out.info("timeout", {"desc": desc, "shapes": [list(s_) if s_ is not None else None for s_ in shp]})
        finally:
            signal.alarm(0)


def check_outcome(out, api, got, orc, witness, OKERR, risk):
    from ..util import exc_site
    st = orc["status"]
    desc = witness["desc"]
    call = f"{api}({desc!r}, shapes={witness['shapes']}, {witness['kwargs']})"
    amb = orc.get("amb_axes") if api == "solve_axes" else orc.get("amb_shapes")
    if got[0] == "exc":
        e = got[1]
        if not isinstance(e, OKERR):
            out.violation({"kind": "wrong-exception-class", "api": api, "exc": type(e).__name__, "risk": risk, **exc_site(e)}, {**witness, "message": str(e)[:300]},
                          f"{call}: {type(e).__name__}: {str(e)[:120]} (oracle: {st})")
            return
        out.count(f"{api}:rejected")
        if st != "none" and not amb and orc["prop"] == "derived":
            out.violation({"kind": "rejected-derivable", "api": api, "exc": type(e).__name__, "risk": risk}, {**witness, "message": str(e)[:300]},
                          f"{call} rejected ({type(e).__name__}) although every length follows by substitution")
        else:
            out.count(f"{api}:rejected-as-expected")
        return
    r = got[1]
    out.count(f"{api}:accepted")
    if st == "none":
        out.violation({"kind": "accepted-unsolvable", "api": api, "risk": risk}, {**witness, "returned": repr(r)[:300]},
                      f"{call} returned {repr(r)[:120]} but no assignment of positive integers satisfies the constraints")
        return
    if amb:
        out.violation({"kind": "accepted-ambiguous", "api": api, "risk": risk}, {**witness, "returned": repr(r)[:300], "ambiguous": amb},
                      f"{call} returned {repr(r)[:120]} although {'axes ' + str(amb) if api == 'solve_axes' else 'shapes of tensors ' + str(amb)} differ between satisfying assignments")
        return
    bad = None
    if api == "solve_axes":
        for t, vs in orc["axes_sets"].items():
            d = dict(next(iter(vs)))
            if not d:
                continue  # zero repetitions: nothing to report
            if t not in r:
                bad = f"axis {t} missing from result {r!r}"
                break
            rv = np.asarray(r[t])
            for name, v in d.items():
                idx = tuple(int(x) for x in name[len(t):].split(".") if x)
                try:
                    gv = int(rv[idx])
                except Exception:
                    bad = f"axis {name}: cannot index result {rv!r}"
                    break
                if gv != v:
                    bad = f"axis {name}: expected {v}, got {gv}"
                    break
            if bad:
                break
    else:
        sets = orc["shape_sets"]
        if len(r) != len(sets):
            bad = f"{len(r)} shapes for {len(sets)} expressions"
        else:
            for k, (rs, ss) in enumerate(zip(r, sets)):
                exp = next(iter(ss))
                if tuple(int(x) for x in rs) != tuple(exp):
                    bad = f"shape {k}: expected {tuple(exp)}, got {tuple(rs)}"
                    break
    if bad:
        out.violation({"kind": "wrong-solution", "api": api, "risk": risk}, {**witness, "returned": repr(r)[:300], "detail": bad}, f"{call}: {bad}")
    else:
        out.count(f"{api}:correct")


def finalize(agg, tier, seed):
    c = agg.counters
    for k in ("oracle:unique", "oracle:none", "oracle:ambiguous", "solve_axes:correct", "solve_shapes:correct", "solve_axes:rejected-as-expected", "big_cases"):
        if c.get(k, 0) < 20:
            agg.inconclusive.append(f"{k} observed only {c.get(k, 0)} times")
    if c.get("case_timeouts", 0) > 0.10 * max(1, c.get("evaluations", 0)):
        agg.inconclusive.append(f"{c.get('case_timeouts')} cases hit the 45 s per-case watchdog")
    return {"case_timeouts": int(c.get("case_timeouts", 0))}
