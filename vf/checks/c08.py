"""C08 - results depend on axis names / positions only as the notation says (equivariance).

Metamorphic relations between two or three real calls: consistent renaming; permuting the
un-bracketed root axes of an input (tensor transposed alike); permuting the un-bracketed root axes
of the output (result permuted alike); (un)grouping adjacent root axes with parentheses (tensor
reshaped alike); inversion and composition of pure rearrangements.
"""
import math
import random

import numpy as np

ID = "C08"
LEVEL = "exploration"
RULE = (
    "G cases of all families (explicit outputs for position relations); relations: rename (incl. names that sort differently and multi-character names), input-permute, "
    "output-permute, group/ungroup on inputs and outputs; plus generated triples of rearrangement expressions over one leaf set for inversion and composition; distinct by "
    "(relation, op, skeleton); every related pair differs textually from the original"
)
ASSUMPTIONS = [
    "bracketed root dimensions keep their relative order under permutation (coordinate order / elementary signature depend on it)",
    "position relations are applied to descriptions with an explicit output only (an implicit output legitimately follows the input order)",
    "renaming never creates a clash with a keyword option or an API parameter name",
]
TIMEOUT = {"quick": 900, "thorough": 7200}

RENAME_POOL = ["zz", "a0", "Q", "m_1", "b", "aa", "k9", "Z", "c", "w2", "n", "ab_c", "D", "e", "f1", "gg", "h", "i", "jj", "K", "l", "M0", "o", "p", "q", "r", "s", "t", "u", "v"]


def shards(tier, seed, scale):
    n = 16 if tier == "quick" else 64
    return [{"n": int((200 if tier == "quick" else 2000) * scale), "ntriples": int((60 if tier == "quick" else 1000) * scale), "maxlen": 4} for _ in range(n)]


def root_dims(item, case):
    """Number of tensor dimensions a root item occupies."""
    from ..gen.expr import Ax, Num, Flat, Cat, Br, Ell
    if isinstance(item, Ell):
        inner = sum(root_dims(i, case) for i in item.items) if not item.anon else 1
        return case.reps[item.group] * inner
    if isinstance(item, Br):
        return sum(root_dims(i, case) for i in item.items)
    return 1


def has_bracket(item):
    from ..gen.expr import Br, walk
    return any(isinstance(n, Br) for n in walk([item]))


def bracket_preserving_perm(rng, items):
    """A permutation of root items that keeps the relative order of items containing brackets."""
    idx = list(range(len(items)))
    br = [i for i in idx if has_bracket(items[i])]
    free = [i for i in idx if not has_bracket(items[i])]
    rng.shuffle(free)
    slots = sorted(rng.sample(idx, len(br)))
    out, bi, fi = [], 0, 0
    for k in idx:
        if k in slots:
            out.append(br[bi]); bi += 1
        else:
            out.append(free[fi]); fi += 1
    return out


def dims_perm(items, perm, case):
    offs, o = [], 0
    for it in items:
        d = root_dims(it, case)
        offs.append(list(range(o, o + d)))
        o += d
    res = []
    for i in perm:
        res.extend(offs[i])
    return res


def run(spec, out):
    import einx
    import warnings
    from ..gen import cases as G
    from ..gen.expr import Ax, Num, Flat, Cat, Br, Ell, pr, pr_desc, copy_expr, walk
    from ..capture import same_value
    from .. import exec as X
    from ..util import exc_site
    from .c07 import execute

    warnings.simplefilter("ignore")
    rng = random.Random(spec["seed"])
    nprng = np.random.default_rng(spec["seed"])
    fams = G.FAMILIES + ["update"]

    def call(case, inputs=None, outputs="same", tensors=None, kwargs=None, post=None):
        return {"fn": case.op, "desc": pr_desc(case.inputs if inputs is None else inputs, case.outputs if outputs == "same" else outputs), "tensors": case.tensors if tensors is None else tensors,
                "kwargs": dict(case.kwargs if kwargs is None else kwargs), "opts": dict(case.opts), "post": post}

    def relate(label, case, c1, c2, b, inexact):
        out.evaluation()
        out.count(f"relation:{label}")
        out.distinct_key(f"{label}|{case.op}|{case.skeleton()}")
        r1, r2 = execute(c1, b), execute(c2, b)
        risk = G.risk(case)
        wit = {"relation": label, "orig": {"fn": c1["fn"], "desc": c1["desc"], "kwargs": {k: repr(v) for k, v in c1["kwargs"].items()}}, "related": {"fn": c2["fn"], "desc": c2["desc"], "kwargs": {k: repr(v) for k, v in c2["kwargs"].items()}},
               "shapes": [list(np.shape(t)) for t in c1["tensors"]], "related_shapes": [list(np.shape(t)) for t in c2["tensors"]], "backend": b}
        if r1[0] == "ok" and r2[0] == "ok":
            if same_value(r1[1], r2[1], inexact=inexact) or same_value(r1[1], r2[1], inexact=True):
                out.count("relations_hold")
                out.count(f"hold:{label}")
            else:
                out.violation({"kind": "relation-value-differs", "relation": label, "family": case.family, "risk": risk}, wit, f"[{label}] {c1['fn']}({c1['desc']!r}) vs {c2['desc']!r}: results differ (shapes {wit['shapes']})")
        elif r1[0] == "exc" and r2[0] == "exc":
            if type(r1[1]).__name__ == type(r2[1]).__name__:
                out.count("relations_fail_alike")
            else:
                out.violation({"kind": "relation-different-exception", "relation": label, "orig": type(r1[1]).__name__, "related": type(r2[1]).__name__, "family": case.family, "risk": risk}, wit, f"[{label}] {c1['desc']!r} -> {type(r1[1]).__name__}, {c2['desc']!r} -> {type(r2[1]).__name__}")
        else:
            e = r2[1] if r1[0] == "ok" else r1[1]
            out.violation({"kind": "relation-one-side-rejected", "relation": label, "rejected": "related" if r1[0] == "ok" else "orig", "exc": type(e).__name__, "family": case.family, "risk": risk, **exc_site(e)}, {**wit, "message": str(e)[:300]},
                          f"[{label}] {c1['fn']}({c1['desc']!r}, {c1['kwargs']}) vs ({c2['desc']!r}, {c2['kwargs']}): one side rejected: {type(e).__name__}: {str(e)[:120]}")

    for it in range(spec["n"]):
        case = G.generate(rng, nprng, family=rng.choice(fams), P={"maxlen": spec["maxlen"]})
        b = rng.choice([None, None, "numpy", "numpy.numpylike", "numpy.einsum"])
        inexact = X.is_inexact(case)
        # ---- (1) consistent renaming
        names = sorted({n.name for e in list(case.inputs) + list(case.outputs or []) for n in walk(e) if isinstance(n, Ax)})
        pool = [p for p in RENAME_POOL if p not in ("shift", "keepdims")]
        rng.shuffle(pool)
        if names and len(pool) >= len(names):
            ren = dict(zip(names, pool))
            ins = [copy_expr(e, ren) for e in case.inputs]
            outs = None if case.outputs is None else [copy_expr(e, ren) for e in case.outputs]
            kw = {ren.get(k, k): v for k, v in case.kwargs.items()}
            relate("rename", case, call(case), call(case, ins, outs, kwargs=kw), b, inexact)
        # ---- (1b) stating every axis size redundantly (consistent keyword sizes) changes nothing
        kw_all = dict(case.kwargs)
        for nme in names:
            vs = case.var_sizes.get(nme)
            if vs is None or nme in kw_all or nme in case.note.get("fixed_vars", ()):
                continue
            if case.var_group.get(nme) is None:
                kw_all[nme] = int(vs[0])
            elif len(vs) > 0:
                kw_all[nme] = tuple(int(v) for v in vs)
        if kw_all != case.kwargs:
            relate("redundant-sizes", case, call(case), call(case, kwargs=kw_all), b, inexact)
        # ---- (1c) a rearrangement that is a bijection between input and output elements (no diagonal, nothing repeated or dropped; splits and
        # concatenations included) is undone by the description read backwards
        if case.family == "id" and case.outputs is not None:
            from ..gen.expr import xleaves
            nodiag = all(len({l.name for l in xleaves(e)}) == len(list(xleaves(e))) for e in case.xin + case.xout)
            n_in = sum(math.prod(sh) for sh in case.in_shapes)
            n_out = sum(math.prod(sh) for sh in case.out_shapes)
            in_names = {l.name for e in case.xin for l in xleaves(e) if case.sizes[l.name] != 1}
            out_names = {l.name for e in case.xout for l in xleaves(e) if case.sizes[l.name] != 1}
            if nodiag and n_in == n_out and in_names == out_names:
                out.evaluation()
                out.count("relation:split-concat-inversion")
                fwd = execute(call(case, kwargs=kw_all), b)
                if fwd[0] == "ok":
                    res = list(fwd[1]) if isinstance(fwd[1], (tuple, list)) else [fwd[1]]
                    inv = {"fn": "id", "desc": pr_desc(case.outputs, case.inputs), "tensors": res, "kwargs": dict(kw_all), "opts": {}, "post": None}
                    back = execute(inv, b)
                    wit = {"relation": "split-concat-inversion", "forward": call(case)["desc"], "backward": inv["desc"], "kwargs": {k: repr(v) for k, v in kw_all.items()}, "shapes": [list(sh) for sh in case.in_shapes], "backend": b}
                    ncats = sum(1 for e in list(case.inputs) + list(case.outputs) for n in walk(e) if isinstance(n, Cat))
                    if back[0] == "ok":
                        got = list(back[1]) if isinstance(back[1], (tuple, list)) else [back[1]]
                        if len(got) == len(case.tensors) and all(np.array_equal(np.asarray(g), np.asarray(t)) for g, t in zip(got, case.tensors)):
                            out.count("hold:split-concat-inversion")
                            if ncats:
                                out.count("hold:split-concat-inversion-with-concatenation")
                            out.distinct_key(f"inversion|{case.skeleton()}")
                        else:
                            out.violation({"kind": "inversion-fails", "relation": "split-concat-inversion", "concatenations": min(ncats, 3), "risk": G.risk(case)}, wit, f"id({inv['desc']!r}) applied to the result of id({wit['forward']!r}) does not restore the inputs")
                    else:
                        out.count("inverse_rejected")  # whether the backward description is accepted is C01's/C03's business
                else:
                    out.count("forward_rejected")
        if case.outputs is None or case.family == "update":
            continue  # position relations need an explicit output (update ops: the output mirrors the target by rule)
        concat = any(isinstance(n, Cat) for e in list(case.inputs) + list(case.outputs) for n in walk(e))
        # ---- (2) permute the root axes of one input and transpose the tensor alike
        i = rng.randrange(len(case.inputs))
        items = case.inputs[i]
        ncat = lambda its: sum(1 for m in walk(its) if isinstance(m, Cat))
        if len(items) >= 2 and ncat(items) < 2:  # (the order of several concatenations defines the piece order)
            perm = bracket_preserving_perm(rng, items)
            if perm != list(range(len(items))):
                ins = [copy_expr(e) for e in case.inputs]
                ins[i] = [copy_expr([items[k]])[0] for k in perm]
                dp = dims_perm(items, perm, case)
                tensors = list(case.tensors)
                tensors[i] = np.transpose(np.asarray(case.tensors[i]), dp)
                # bracketed dimensions in a different relative position to un-bracketed ones do not matter for any op
                relate("input-permute", case, call(case), call(case, ins, tensors=tensors), b, inexact)
        # ---- (3) permute the root axes of one output: the result is permuted alike
        if not concat or True:
            j = rng.randrange(len(case.outputs))
            oitems = case.outputs[j]
            if len(oitems) >= 2 and ncat(oitems) < 2:
                perm = bracket_preserving_perm(rng, oitems)
                if perm != list(range(len(oitems))):
                    outs = [copy_expr(e) for e in case.outputs]
                    outs[j] = [copy_expr([oitems[k]])[0] for k in perm]
                    dp = dims_perm(oitems, perm, case)

                    def post(r, j=j, dp=dp, multi=len(case.outputs) > 1):
                        if multi:
                            r = list(r)
                            r[j] = np.transpose(np.asarray(r[j]), dp)
                            return tuple(r)
                        return np.transpose(np.asarray(r), dp)

                    relate("output-permute", case, call(case, post=post), call(case, outputs=outs), b, inexact)
        # ---- (4) group adjacent un-bracketed root axes of an input with parentheses; reshape the tensor alike
        i = rng.randrange(len(case.inputs))
        items = case.inputs[i]
        cands = [k for k in range(len(items) - 1) if all(isinstance(items[k + d], (Ax, Num, Flat)) and not has_bracket(items[k + d]) and not any(isinstance(m, (Ell, Cat)) for m in walk([items[k + d]])) for d in (0, 1))]
        if cands and not any(isinstance(m, Ell) for m in items):
            k = rng.choice(cands)
            ins = [copy_expr(e) for e in case.inputs]
            grouped = Flat([copy_expr([items[k]])[0], copy_expr([items[k + 1]])[0]])
            ins[i] = ins[i][:k] + [grouped] + ins[i][k + 2:]
            t = np.asarray(case.tensors[i])
            dk = sum(root_dims(m, case) for m in items[:k])  # dimension index of root item k
            newshape = t.shape[:dk] + (t.shape[dk] * t.shape[dk + 1],) + t.shape[dk + 2:]
            tensors = list(case.tensors)
            tensors[i] = np.ascontiguousarray(t).reshape(newshape)
            # the sizes of the grouped axes are no longer given by the shape: state them
            kw = dict(case.kwargs)
            for m in walk([items[k], items[k + 1]]):
                if isinstance(m, Ax) and m.name not in kw:
                    kw[m.name] = int(case.var_sizes[m.name][0])
            relate("group-input", case, call(case), call(case, ins, tensors=tensors, kwargs=kw), b, inexact)
        # ungroup: a root flattened axis of plain axes becomes separate root axes
        cands = [k for k, m in enumerate(items) if isinstance(m, Flat) and m.items and all(isinstance(x, (Ax, Num)) for x in m.items)]
        if cands and not any(isinstance(m, Ell) for m in items):
            k = rng.choice(cands)
            ins = [copy_expr(e) for e in case.inputs]
            inner = copy_expr(items[k].items)
            ins[i] = ins[i][:k] + inner + ins[i][k + 1:]
            t = np.asarray(case.tensors[i])
            sizes = [x.value if isinstance(x, Num) else int(case.var_sizes[x.name][0]) for x in items[k].items]
            tensors = list(case.tensors)
            dk = sum(root_dims(m, case) for m in items[:k])
            tensors[i] = np.ascontiguousarray(t).reshape(t.shape[:dk] + tuple(sizes) + t.shape[dk + 1:])
            relate("ungroup-input", case, call(case), call(case, ins, tensors=tensors), b, inexact)
        # group on the output side: the result is reshaped alike
        j = rng.randrange(len(case.outputs))
        oitems = case.outputs[j]
        cands = [k for k in range(len(oitems) - 1) if all(isinstance(oitems[k + d], (Ax, Num, Flat)) and not has_bracket(oitems[k + d]) and not any(isinstance(m, (Ell, Cat)) for m in walk([oitems[k + d]])) for d in (0, 1))]
        if cands and not any(isinstance(m, Ell) for m in oitems):
            k = rng.choice(cands)
            outs = [copy_expr(e) for e in case.outputs]
            outs[j] = outs[j][:k] + [Flat([copy_expr([oitems[k]])[0], copy_expr([oitems[k + 1]])[0]])] + outs[j][k + 2:]

            def post(r, j=j, k=sum(root_dims(m, case) for m in oitems[:k]), multi=len(case.outputs) > 1):
                def g(a):
                    a = np.ascontiguousarray(np.asarray(a))
                    return a.reshape(a.shape[:k] + (a.shape[k] * a.shape[k + 1],) + a.shape[k + 2:])
                if multi:
                    r = list(r)
                    r[j] = g(r[j])
                    return tuple(r)
                return g(r)

            relate("group-output", case, call(case, post=post), call(case, outputs=outs), b, inexact)

    # ---- (5) inversion and (6) composition of pure rearrangements
    for it in range(spec["ntriples"]):
        case = G.Case("id", "id")
        namer = G.Namer(rng)
        vs = G.make_vars(rng, namer, rng.randint(1, 5), spec["maxlen"])
        G._register(case, vs)

        def struct():
            atoms = [(Ax(v.name), False) for v in G.perm(rng, vs)]
            atoms = G.insert_units(rng, atoms, case, 0.15)
            return G.structure(rng, atoms, case, 0.35)

        A, B, C = struct(), struct(), struct()
        sizes = {v.name: v.sizes[0] for v in vs}
        kw = dict(sizes)
        from ..gen.expr import expand, xshape
        shapeA = xshape(expand(A, {}), {**sizes, **{n.uid: n.value for n in walk(A) if isinstance(n, Num)}})
        x = nprng.integers(-5, 9, size=shapeA).astype(np.float64) if math.prod(shapeA) < 5000 else None
        if x is None:
            continue
        b = rng.choice([None, "numpy.numpylike", "numpy.einsum"])
        bk = {} if b is None else {"backend": b}
        dA, dB, dC = pr(A), pr(B), pr(C)
        out.evaluation()
        out.distinct_key(f"triple|{dA}|{dB}|{dC}")
        try:
            y = einx.id(f"{dA} -> {dB}", x, **kw, **bk)
            xb = einx.id(f"{dB} -> {dA}", y, **kw, **bk)
            z1 = einx.id(f"{dB} -> {dC}", y, **kw, **bk)
            z2 = einx.id(f"{dA} -> {dC}", x, **kw, **bk)
        except Exception as e:
            out.violation({"kind": "rearrangement-rejected", "exc": type(e).__name__, **exc_site(e)}, {"A": dA, "B": dB, "C": dC, "sizes": sizes, "message": str(e)[:300]}, f"rearrangement among {dA!r}, {dB!r}, {dC!r} rejected: {type(e).__name__}: {str(e)[:120]}")
            continue
        if not np.array_equal(np.asarray(xb), x):
            out.violation({"kind": "inversion-fails"}, {"A": dA, "B": dB, "sizes": sizes, "backend": b}, f"id({dB!r} -> {dA!r})(id({dA!r} -> {dB!r})(x)) != x")
        else:
            out.count("hold:inversion")
        if not np.array_equal(np.asarray(z1), np.asarray(z2)):
            out.violation({"kind": "composition-fails"}, {"A": dA, "B": dB, "C": dC, "sizes": sizes, "backend": b}, f"id({dB!r}->{dC!r}) o id({dA!r}->{dB!r}) != id({dA!r}->{dC!r})")
        else:
            out.count("hold:composition")
        if it < 1:
            out.sample({"triple": [dA, dB, dC], "sizes": sizes})


    # ---- (7) block assembly: k x m blocks 'r_i c_j' -> '(r_1 + .. + r_k) (c_1 + .. + c_m)' equals np.block, and the backward description splits it again;
    # an extra un-concatenated axis may sit before, between or after the two concatenated ones
    for it in range(spec["ntriples"] // 4):
        k, m = rng.randint(1, 3), rng.randint(1, 3)
        rs = [rng.randint(1, 3) for _ in range(k)]
        cs = [rng.randint(1, 3) for _ in range(m)]
        extra = rng.choice([None, None, 0, 1, 2])
        e = rng.randint(1, 3)
        def with_extra(lst, pos=extra):
            lst = list(lst)
            if pos is not None:
                lst.insert(pos, "e")
            return " ".join(lst)
        ins, tens = [], []
        for i in range(k):
            for j in range(m):
                ins.append(with_extra([f"r{i}", f"c{j}"]))
                shp = [rs[i], cs[j]]
                if extra is not None:
                    shp.insert(extra, e)
                tens.append(nprng.integers(-9, 9, size=shp).astype(np.float64))
        odesc = with_extra(["(" + " + ".join(f"r{i}" for i in range(k)) + ")", "(" + " + ".join(f"c{j}" for j in range(m)) + ")"])
        fdesc = ", ".join(ins) + " -> " + odesc
        bdesc = odesc + " -> " + ", ".join(ins)
        kw = {**{f"r{i}": rs[i] for i in range(k)}, **{f"c{j}": cs[j] for j in range(m)}}
        b = rng.choice([None, "numpy.numpylike", "numpy.einsum"])
        bk = {} if b is None else {"backend": b}
        out.evaluation()
        out.distinct_key(f"block|{k}|{m}|{extra}|{rs}|{cs}")
        ra, ca = (0, 1) if extra is None else [p for p in range(3) if p != extra]
        expect = np.concatenate([np.concatenate([tens[i * m + j] for j in range(m)], axis=ca) for i in range(k)], axis=ra)
        wit = {"forward": fdesc, "sizes": kw, "e": e, "backend": b}
        try:
            y = einx.id(fdesc, *tens, **bk)
            back = einx.id(bdesc, y, **kw, **bk)
        except Exception as ex:
            out.violation({"kind": "block-assembly-rejected", "exc": type(ex).__name__, **exc_site(ex)}, {**wit, "message": str(ex)[:300]}, f"block assembly {fdesc!r} or its inverse rejected: {type(ex).__name__}: {str(ex)[:120]}")
            continue
        back = list(back) if isinstance(back, (tuple, list)) else [back]
        if not np.array_equal(np.asarray(y), expect):
            out.violation({"kind": "block-assembly-differs-from-concatenate"}, wit, f"id({fdesc!r}) differs from nested np.concatenate")
        elif len(back) != len(tens) or not all(np.array_equal(np.asarray(g), t) for g, t in zip(back, tens)):
            out.violation({"kind": "inversion-fails", "relation": "block-assembly"}, wit, f"id({bdesc!r}) does not restore the blocks")
        else:
            out.count("hold:block-assembly")


def finalize(agg, tier, seed):
    c = agg.counters
    for r in ("block-assembly", "rename", "redundant-sizes", "input-permute", "output-permute", "group-input", "ungroup-input", "group-output", "inversion", "composition", "split-concat-inversion", "split-concat-inversion-with-concatenation"):
        if c.get(f"hold:{r}", 0) < 20:
            agg.inconclusive.append(f"relation {r}: only {c.get(f'hold:{r}', 0)} holding instances observed")
    return {"relations": {k[9:]: int(v) for k, v in c.items() if k.startswith("relation:")}}
