"""C16 - results are reproducible across processes, hash seeds and repeated calls.

A fixed corpus of calls (generated with a seed independent of the hash seed) is executed in
worker processes started with different PYTHONHASHSEED values. Within a process: first call,
repetition, recompilation after cache_clear(), and two graph=True requests (the second after
cache_clear()) must agree. Across processes: the per-case outcome digests must agree.
"""
import hashlib
import math
import random

import numpy as np

ID = "C16"
LEVEL = "exploration"
HASHSEED = "varied"
RULE = (
    "a corpus of G cases (all families; update ops with forced duplicate coordinates and several vectorised axes; implicit element-wise outputs; flatten groups eligible for CSE; "
    "solver inputs that are under- or over-determined; C02's random systems of expressions through solve_axes / solve_shapes / matches; calls that are ill-formed in several ways at once, e.g. a negative and a non-integral keyword size) is executed under PYTHONHASHSEED in {0,1,2,3,17,4242,12345,random}; per case: value digest (bit-exact for integer/bool data and "
    "data-moving ops, rounded to 1e-6 relative otherwise) or exception class, for the first call, a repetition and a recompilation; text of two graph=True requests; "
    "distinct by case; non-trivial if the case has duplicates, an implicit output, or >= 2 tensors"
)
ASSUMPTIONS = ["the corpus generator itself is hash-seed independent (checked: corpus digests must agree across workers, else inconclusive)"]
TIMEOUT = {"quick": 900, "thorough": 7200}
SEEDS = [0, 1, 2, 3, 17, 4242, 12345, "random"]


def shards(tier, seed, scale):
    halves = 2 if tier == "quick" else 4
    n = int((140 if tier == "quick" else 600) * scale)
    out = []
    for h in range(halves):
        for hs in SEEDS:
            out.append({"n": n, "nsys": int((200 if tier == "quick" else 600) * scale), "nfactory": int((150 if tier == "quick" else 1500) * scale), "half": h, "hashseed": hs, "corpus_seed": seed * 7919 + h, "seed": seed * 7919 + h, "maxlen": 4})
    return out


def value_digest(v, inexact):
    if isinstance(v, (tuple, list)):
        return "T(" + ",".join(value_digest(i, inexact) for i in v) + ")"
    if isinstance(v, str):
        return "S:" + hashlib.sha1(v.encode()).hexdigest()[:12]
    a = np.asarray(v)
    if a.dtype == object:
        return "O:" + repr(v)[:50]
    if inexact and a.dtype.kind == "f":
        with np.errstate(all="ignore"):
            a = np.where(np.isfinite(a), np.round(a.astype(np.float64), 6 - np.clip(np.floor(np.log10(np.maximum(np.abs(a), 1e-300))).astype(int), -6, 12) if False else 6), a)
    return f"{a.dtype.kind}{tuple(a.shape)}:" + hashlib.sha1(np.ascontiguousarray(a).tobytes()).hexdigest()[:12]


class Plain:
    """A hand-written corpus entry with the interface of a generated case."""

    def __init__(self, op, desc, tensors, kwargs=None, family="special"):
        self.op, self._desc, self.tensors, self.kwargs, self.family = op, desc, tensors, kwargs or {}, family
        self.opts, self.outputs, self.inputs, self.dtypes = {}, None, [0, 0], []
        self.in_shapes = [tuple(np.shape(t)) for t in tensors]

    def desc(self):
        return self._desc

    def call_kwargs(self):
        return dict(self.kwargs)

    def to_json(self):
        return {"op": self.op, "desc": self._desc, "shapes": [list(s) for s in self.in_shapes], "kwargs": self.kwargs}


def special_corpus(rng, nprng):
    """Structures whose outcome hinges on an iteration order inside einx: ties between vectorised axes of update
    operations with competing duplicate coordinates, and element-wise calls whose implicit output is ambiguous
    (must be the same SemanticError under every hash seed)."""
    out = []
    names = ["a", "b", "p", "q", "m", "n", "zz", "k0"]
    for _ in range(40):
        u, v = rng.sample(names, 2)
        nu, nv = rng.choice([2, 3]), rng.choice([2, 3])
        h = rng.choice([3, 4, 5])
        op = rng.choice(["set_at", "set_at", "add_at"])
        form = rng.randrange(4)
        coords = nprng.integers(0, 2, size=(nu, nv))  # many duplicates
        upd = nprng.integers(0, 50, size=(nv, nu)).astype(np.float64) + 100
        tgt = np.zeros(h)
        if form == 0:
            d = f"[x], {u} {v}, {v} {u} -> [x]"
            t = [tgt, coords, upd]
        elif form == 1:
            d = f"[x], {u} {v} [1], {v} {u} -> [x]"
            t = [tgt, coords[..., None], upd]
        elif form == 2:
            d = f"[x], {u} {v}, {v} {u}"
            t = [tgt, coords, upd]
        else:
            d = f"c [x], {u} {v}, {v} c {u} -> c [x]"
            t = [np.zeros((2, h)), coords, nprng.integers(0, 50, size=(nv, 2, nu)).astype(np.float64) + 100]
        out.append(Plain(op, d, t, family="update"))
    for _ in range(20):
        u, v = rng.sample(names, 2)
        op = rng.choice(["add", "multiply", "subtract", "maximum", "less"])
        x = nprng.integers(0, 9, size=(2, 3)).astype(np.float64)
        form = rng.randrange(3)
        if form == 0:
            out.append(Plain(op, f"{u} {v}, {v} {u}", [x, x.T.copy()]))
        elif form == 1:
            out.append(Plain(op, f"({u} {v}), {u} {v}", [x.reshape(6), x], {u: 2}))
        else:
            out.append(Plain(op, f"{u} {v} 1, {u} {v}", [x[..., None], x]))
    # overlapping candidates for common-subexpression elimination: a run of 3-4 axes occurs in a flattened axis on both sides, only its product is
    # determined; which sub-run is eliminated (and hence whether the call is solvable) must not depend on set iteration order
    for _ in range(40):
        k = rng.choice([3, 3, 4])
        nms = rng.sample(["a", "b", "c", "d", "e", "f", "g", "h", "m", "n", "p", "q", "u", "v", "w", "zz", "k0", "x1"], k + 2)
        run, d_, e_ = nms[:k], nms[k], nms[k + 1]
        total = rng.choice([6, 8, 12])
        dv, ev = rng.choice([2, 3]), rng.choice([2, 3])
        form = rng.randrange(3)
        if form == 0:
            d = f"({' '.join(run)} {d_}) -> ({e_} {' '.join(run)}) {d_}"
            t = [np.arange(float(total * dv))]
            kw = {d_: dv, e_: ev}
        elif form == 1:
            d = f"({d_} {' '.join(run)}) {e_} -> {e_} {d_} ({' '.join(run)})"
            t = [np.arange(float(total * dv * ev)).reshape(total * dv, ev)]
            kw = {d_: dv}
        else:
            d = f"({' '.join(run)} {d_}), ({' '.join(run)}) -> ({' '.join(run)}) {d_}"
            t = [np.arange(float(total * dv)), np.arange(float(total))]
            kw = {d_: dv}
        out.append(Plain(rng.choice(["id", "id", "sum"]) if form != 2 else "add", d if form != 0 or True else d, t, kw, family="cse-overlap"))
    # calls that are ill-formed in two or more ways at once: which error is reported must not depend on an iteration order
    # (sets of axis names, dict order derived from a set) and hence not on the hash seed
    pool = ["a", "b", "c", "p", "q", "m", "n", "zz", "k0", "w", "h", "ab", "x1", "u", "v", "t"]
    bad_values = [("negative", -1), ("float", 2.5), ("string", "3"), ("zero-dim-float", 1.5), ("negative2", -3), ("contradict", 7)]
    for _ in range(60):
        nms = rng.sample(pool, 4)
        sz = {nm: rng.choice([2, 3]) for nm in nms}
        x = np.zeros((sz[nms[0]] * sz[nms[1]], sz[nms[2]], sz[nms[3]]))
        d = f"({nms[0]} {nms[1]}) {nms[2]} {nms[3]} -> {nms[3]} {nms[0]} {nms[1]} {nms[2]}"
        op = rng.choice(["id", "sum", "max", "id"])
        if op in ("sum", "max"):
            d = f"({nms[0]} {nms[1]}) [{nms[2]}] {nms[3]}"
        kw = dict(sz)
        for nm in rng.sample(nms, rng.choice([2, 2, 3, 4])):
            kw[nm] = rng.choice(bad_values)[1]
        out.append(Plain(op, d, [x], kw, family="multi-defect"))
    for _ in range(20):
        nms = rng.sample(pool, 3)
        # two tensors, each wrong in its own way (a dimension conflict and a rank conflict), plus optionally a bad keyword
        x = np.zeros((2, 3))
        y = np.zeros((4, 2, 2))
        kw = {nms[2]: rng.choice([2.5, -1])} if rng.random() < 0.5 else {}
        out.append(Plain(rng.choice(["add", "dot", "multiply"]), f"{nms[0]} {nms[1]}, {nms[1]} {nms[0]} -> {nms[0]} {nms[1]} {nms[2]}", [x, y], kw, family="multi-defect"))
    return out


def run(spec, out):
    import einx
    import warnings
    from ..gen import cases as G
    from .. import exec as X
    from .. import hooks

    warnings.simplefilter("ignore")
    rng = random.Random(spec["corpus_seed"])
    nprng = np.random.default_rng(spec["corpus_seed"])
    fams = G.FAMILIES + ["update", "update", "update"]
    digests = []
    done = []
    corpus = []
    extra = special_corpus(rng, nprng)
    for k in range(spec["n"] + len(extra)):
        if k >= spec["n"]:
            case = extra[k - spec["n"]]
        else:
            case = G.generate(rng, nprng, family=rng.choice(fams), P={"maxlen": spec["maxlen"]})
        corpus.append(hashlib.sha1(repr((case.op, case.desc(), case.in_shapes, sorted(case.kwargs.items(), key=str), [np.asarray(t).tobytes() for t in case.tensors])).encode()).hexdigest()[:10])
        inexact = X.is_inexact(case)
        f = getattr(einx, case.op)
        cache = hooks.op_cache(f)
        b = [None, "numpy", "numpy.numpylike", "numpy.einsum"][k % 4]

        def once(graph=False):
            t = [np.array(x, copy=True) for x in case.tensors]
            st, v = X.einx_call(case, b, t, graph=graph)
            if st == "exc":
                return "E:" + type(v).__name__
            return value_digest(v, inexact)

        out.evaluation()
        # einx draws its internal identifiers without touching the process-wide random generators (a traced first call and a cached repeat must
        # leave user code that draws from them in the same state)
        import random as _pyrandom
        rs0, ns0 = _pyrandom.getstate(), np.random.get_state()
        d1 = once()
        rs1, ns1 = _pyrandom.getstate(), np.random.get_state()
        if rs0 != rs1 or ns0[0] != ns1[0] or not np.array_equal(ns0[1], ns1[1]) or ns0[2:] != ns1[2:]:
            out.violation({"kind": "global-random-state-advanced"}, {**case.to_json(), "python_random_changed": rs0 != rs1}, f"{case.op}({case.desc()!r}): the first (traced) call changed the state of the global random generator")
        else:
            out.count("global_random_state_untouched")
        d2 = once()
        cache.cache_clear()
        d3 = once()
        g1 = once(graph=True)
        cache.cache_clear()
        g2 = once(graph=True)
        if case.family == "cse-overlap":
            out.count("cse_overlap_calls")
            out.count(f"cse_overlap_outcome:{d1[:24]}")
        if case.family == "multi-defect":
            out.count("multi_defect_calls")
            out.count(f"multi_defect_outcome:{d1[:40]}")
        nontrivial = case.family in ("update", "multi-defect", "cse-overlap") or case.outputs is None or len(case.inputs) > 1
        if nontrivial:
            out.distinct_key(f"{case.op}|{case.desc()}|{case.in_shapes}")
        cj = {**case.to_json(), "backend": b, "hashseed": spec["hashseed"]}
        if k < 1:
            out.sample({**cj, "digests": [d1, d2, d3, g1, g2]})
        if not (d1 == d2 == d3):
            kind = "exception-class-flips" if any(d.startswith("E:") for d in (d1, d2, d3)) else "value-differs"
            out.violation({"kind": f"repetition-{kind}", "family": case.family}, {**cj, "first": d1, "repeat": d2, "recompiled": d3}, f"{case.op}({case.desc()!r}, shapes={case.in_shapes}): first/repeat/recompiled outcomes {d1} / {d2} / {d3}")
        else:
            out.count("repetitions_agree")
        if g1 != g2:
            out.violation({"kind": "graph-text-differs-between-compilations", "family": case.family}, {**cj}, f"{case.op}({case.desc()!r}): two graph=True requests (second after cache_clear) return different text")
        else:
            out.count("graph_texts_agree")
        digests.append([d1, g1])
        done.append((case, b, inexact, d1))
    # ---- the same calls once more in the opposite order, the backend now selected by an enclosing with-block instead of the argument:
    # the outcome of a call does not depend on what was called before it, nor on how the (same) backend was selected
    for case, b, inexact, d1 in reversed(done):
        t = [np.array(x, copy=True) for x in case.tensors]
        st, v = X.einx_call(case, None if b is None else "with:" + b, t)
        d4 = "E:" + type(v).__name__ if st == "exc" else value_digest(v, inexact)
        out.evaluation()
        if d4 != d1:
            out.violation({"kind": "repetition-in-another-order-differs", "family": case.family}, {**case.to_json(), "backend_by_with_block": b, "first": d1, "again": d4, "hashseed": spec["hashseed"]},
                          f"{case.op}({case.desc()!r}, shapes={case.in_shapes}) gave {d1} first and {d4} when repeated after the rest of the corpus inside 'with {b}'")
        else:
            out.count("reverse_order_repetitions_agree")
    # ---- repeated calls with short-lived callables: tensor factories of different signatures are created, used once and dropped, many times
    # over (object addresses get reused); every repetition of a factory kind must reproduce the outcome of its first use
    import gc
    x = np.arange(6.0).reshape(3, 2)
    kinds = {
        "plain": lambda: (lambda shape: np.ones(shape) * 2),
        "named": lambda: (lambda shape, name=None: np.ones(shape) * (3 if name is not None else 1)),
        "varkw": lambda: (lambda shape, **kw: np.ones(shape) * (10 + len(kw))),
        "argidx": lambda: (lambda shape, arg_index=None: np.ones(shape) * (5 + (arg_index or 0))),
    }
    first = {}
    frng = random.Random(spec["corpus_seed"] + 99)
    # reference outcome of every (factory kind, description): one call each on an emptied compile cache, i.e. not preceded by any other factory
    add_cache = hooks.op_cache(einx.add)
    for kind in sorted(kinds):
        for desc in ("a b, b", "a b, a b", "a b, a"):
            add_cache.cache_clear()
            try:
                first[(kind, desc)] = value_digest(einx.add(desc, x, kinds[kind]()), False)
            except Exception as e:  # noqa
                first[(kind, desc)] = "E:" + type(e).__name__
    add_cache.cache_clear()
    for rep in range(spec.get("nfactory", 0)):
        kind = frng.choice(sorted(kinds))
        f = kinds[kind]()
        desc = frng.choice(["a b, b", "a b, a b", "a b, a"])
        try:
            r = value_digest(einx.add(desc, x, f), False)
        except Exception as e:  # noqa
            r = "E:" + type(e).__name__
        del f
        if frng.random() < 0.5:
            gc.collect()
        out.evaluation()
        out.count("short_lived_factory_calls")
        key = (kind, desc)
        if key not in first:
            first[key] = r
            out.distinct_key(f"factory|{kind}|{desc}")
        elif first[key] != r:
            out.violation({"kind": "repetition-differs-with-short-lived-callable", "factory": kind}, {"factory_kind": kind, "desc": desc, "first": first[key], "now": r, "repetition": rep, "hashseed": spec["hashseed"]},
                          f"einx.add({desc!r}, x, <fresh {kind} factory>): repetition {rep} gives {r}, the first use gave {first[key]}")
        else:
            out.count("short_lived_factory_repetitions_agree")
    # ---- solver systems (C02's generator): outcome of solve_axes / solve_shapes / matches per system; these reach the symbolic solver,
    # whose result must not depend on set iteration order or object addresses
    import signal
    from .c02 import gen_system, CaseTimeout
    from ..gen.expr import pr, expand, xleaves, xshape, walk, Num
    fired = [False]

    def on_alarm(signum, frame):
        fired[0] = True  # einx.matches has a bare 'except:' that swallows the watchdog's exception: the flag still tells
        raise CaseTimeout()

    signal.signal(signal.SIGALRM, on_alarm)
    srng = random.Random(spec["corpus_seed"] * 31 + 5)
    for k in range(spec.get("nsys", 0)):
        exprs, truth, ell, sugared = gen_system(srng)
        reps = {g: len(truth[n]) for n, g in ell.items()}
        try:
            xex = [expand(e, reps) for e in exprs]
        except KeyError:
            continue
        sizes = {}
        uid2val = {n.uid: n.value for e in exprs for n in walk(e) if isinstance(n, Num)}
        for e in xex:
            for l in xleaves(e):
                if l.isnum:
                    sizes[l.name] = uid2val[l.tname]
                else:
                    idx = [int(t) for t in l.name[len(l.tname):].split(".") if t]
                    sizes[l.name] = truth[l.tname][idx[-1]] if idx else truth[l.tname][0]
        shapes = [tuple(xshape(e, sizes)) for e in xex]
        if any(math.prod(sh) > 2**40 for sh in shapes):
            continue
        used = sorted({n.name for e in exprs for n in walk(e) if hasattr(n, "name")})
        kwargs = {n: (truth[n][0] if n not in ell else tuple(truth[n])) for n in used if srng.random() < 0.25 and len(truth[n]) > 0}
        if srng.random() < 0.3 and shapes:
            a = srng.randrange(len(shapes))
            if shapes[a]:
                b_ = srng.randrange(len(shapes[a]))
                sh = list(shapes[a]); sh[b_] = max(1, sh[b_] + srng.choice([-1, 1])); shapes[a] = tuple(sh)
        desc = sugared if sugared is not None else ", ".join(pr(e) for e in exprs)
        tensors = [np.broadcast_to(np.zeros((), dtype=np.int8), sh) for sh in shapes]
        corpus.append(hashlib.sha1(repr((desc, shapes, sorted(kwargs.items()))).encode()).hexdigest()[:10])
        res = []
        out.evaluation()
        out.count("solver_systems")
        for api in ("solve_axes", "solve_shapes", "matches"):
            fired[0] = False
            signal.alarm(30)
            try:
                r = getattr(einx, api)(desc, *tensors, **kwargs)
                signal.alarm(0)
                if fired[0]:
                    raise CaseTimeout()
                if isinstance(r, dict):
                    r = sorted((kk, np.asarray(vv).tolist()) for kk, vv in r.items())
                res.append("R:" + repr(r)[:200])
            except CaseTimeout:
                res.append("T:timeout")
            except Exception as e:  # noqa
                res.append("E:" + type(e).__name__)
            finally:
                signal.alarm(0)
        if not any(r.startswith("T:") for r in res):
            out.distinct_key(f"system|{desc}|{shapes}")
        digests.append(["SYS|" + "|".join(res), "E:n/a"])
        if k < 1:
            out.sample({"system": desc, "shapes": [list(sh) for sh in shapes], "kwargs": {kk: repr(vv) for kk, vv in kwargs.items()}, "outcomes": res, "hashseed": spec["hashseed"]})
    out.info("digests", {"half": spec["half"], "hashseed": str(spec["hashseed"]), "corpus": corpus, "digests": digests})


def finalize(agg, tier, seed):
    import collections
    per_half = collections.defaultdict(dict)
    for rec in agg.info.get("digests", []):
        per_half[rec["half"]][rec["hashseed"]] = rec
    compared = 0
    for half, by_seed in per_half.items():
        seeds = sorted(by_seed)
        if len(seeds) < 2:
            agg.inconclusive.append(f"corpus half {half}: only {len(seeds)} hash seeds reported")
            continue
        ref = by_seed[seeds[0]]
        for s in seeds[1:]:
            other = by_seed[s]
            if other["corpus"] != ref["corpus"]:
                agg.inconclusive.append(f"corpus differs between hash seeds {seeds[0]} and {s} (harness generator is hash-seed dependent)")
                continue
            for k, (a, b) in enumerate(zip(ref["digests"], other["digests"])):
                compared += 1
                if "T:timeout" in a[0] or "T:timeout" in b[0]:
                    agg.counters["comparisons_skipped_timeout"] += 1
                    continue
                if a[0] != b[0]:
                    kind = "exception-class-flips" if (a[0].startswith("E:") or b[0].startswith("E:")) else "value-differs"
                    if a[0].startswith("SYS|"):
                        kind = "solver-outcome-differs"
                    agg.violations.append({"t": "violation", "mech": {"kind": f"hashseed-{kind}"}, "witness": {"half": half, "case_index": k, "hashseed_a": seeds[0], "hashseed_b": s, "a": a[0], "b": b[0], "corpus_id": ref["corpus"][k]},
                                           "desc": f"corpus case {half}/{k}: outcome {a[0]} under PYTHONHASHSEED={seeds[0]} but {b[0]} under PYTHONHASHSEED={s}"})
                elif a[1] != b[1] and not a[1].startswith("E:"):
                    agg.counters["graph_text_differs_across_hashseeds"] += 1
    agg.counters["cross_process_comparisons"] = compared
    if agg.counters.get("global_random_state_untouched", 0) < 100:
        agg.inconclusive.append("fewer than 100 calls observed for their effect on the global random generators")
    if agg.counters.get("reverse_order_repetitions_agree", 0) < 100:
        agg.inconclusive.append("fewer than 100 agreeing repetitions in reverse order")
    if agg.counters.get("short_lived_factory_repetitions_agree", 0) < 100:
        agg.inconclusive.append("fewer than 100 agreeing repetitions with short-lived factories")
    if agg.counters.get("multi_defect_calls", 0) < 50:
        agg.inconclusive.append("fewer than 50 multi-defect calls observed")
    if compared < 100:
        agg.inconclusive.append(f"only {compared} cross-process comparisons")
    return {"cross_process_comparisons": compared, "hash_seeds": [str(s) for s in SEEDS], "graph_text_differs_across_hashseeds": int(agg.counters.get("graph_text_differs_across_hashseeds", 0))}
