"""C01 - every built-in operation computes exactly its loop-notation meaning.

Generated well-formed calls (G) run on the real einx under several backend selections; every
returned tensor is compared with the loop-notation reference R. The argument sanitizer A is on.
"""
import random

import numpy as np

ID = "C01"
LEVEL = "exploration"
RULE = (
    "calls are drawn from G's grammar (Appendix A of DESIGN.md) over all value operations, executed on backend selections "
    "None/'numpy'/'numpy.numpylike'/'numpy.einsum'/with-blocks and compared element-wise with the loop-notation reference R; "
    "a case is distinct by (operation, description skeleton with names abstracted, unit-axis pattern) and non-trivial if it uses at least one of: "
    "flatten, concat, ellipsis, diagonal, squeeze, broadcast, permutation, brackets inside a flatten, implicit output, several tensors"
)
ASSUMPTIONS = [
    "R's conventions (piece order of concatenations, coordinate order, bracketed repeated names are distinct axes) follow the documentation and are listed in DESIGN.md section 2.1",
    "integer-valued data make sums/products/dots exact; mean/var/std/divide/logsumexp/softmax compared with rtol=1e-9",
    "only the three numpy backends are reachable in this sandbox",
]
TIMEOUT = {"quick": 900, "thorough": 7200}


def shards(tier, seed, scale):
    n = 16 if tier == "quick" else 64
    per = int((450 if tier == "quick" else 2400) * scale)
    return [{"n": per, "maxlen": 5 if tier == "quick" else 7} for _ in range(n)]


NONTRIVIAL = {"bracket-around-flatten", "flatten", "flatten-nested", "concat", "ellipsis", "diagonal", "squeeze", "broadcast", "permute", "bracket-in-flatten", "implicit-output", "broadcast-input", "multi-coord", "dot-nary", "keepdims", "number"}


def risk_tags(case):
    """Purely structural predicates naming input classes with a known, hand-confirmed defect."""
    from ..gen.expr import Ax
    tags = []
    f = case.feats
    if "multi-bracket-in-flatten" in f:
        tags.append("multi-bracket-in-flatten")
    return tags


def G_risk(case):
    from ..gen.cases import risk
    return risk(case)


def run_case(case, out, backends, layouts_rng=None):
    from .. import exec as X
    from ..argsan import Guard
    from ..gen.cases import relayout, LAYOUTS

    import einx

    try:
        expected = X.reference(case)
    except Exception as e:  # a reference failure is a harness problem, never a verdict
        out.count("reference_failed")
        out.info("reference_failed", {"case": case.to_json(), "err": repr(e)[:300]})
        return
    inexact = X.is_inexact(case)
    tags = risk_tags(case)
    for b in backends:
        tensors = case.tensors
        layout = "c"
        if layouts_rng is not None:
            layout = layouts_rng.choice(LAYOUTS)
            tensors = [relayout(t, layout) for t in case.tensors]
        out.evaluation()
        out.count(f"backend:{b}")
        out.count(f"layout:{layout}")
        kw = case.call_kwargs()
        with Guard(tensors, kw) as g:
            status, val = X.einx_call(case, b, tensors)
        for pos, what in g.changed:
            out.violation({"kind": "argument-modified", "family": case.family, "what": what}, {"case": case.to_json(), "backend": b, "pos": pos}, f"{case.op}({case.desc()!r}) modified argument {pos}: {what}")
        if status == "exc":
            e = val
            if isinstance(e, einx.errors.OperationNotSupportedError):
                out.count("not_supported")
                out.count(f"not_supported:{b}")
                continue
            m = X.exc_mech(e)
            out.violation(
                {"kind": "rejected-valid", "family": case.family, "risk": G_risk(case), **m},
                {"case": case.to_json(), "backend": b, "layout": layout, "message": str(e)[:400]},
                f"einx.{case.op}({case.desc()!r}, shapes={case.in_shapes}, {kw}) backend={b}: {type(e).__name__}: {str(e)[:160]}",
            )
            continue
        d = X.compare(expected, val, inexact)
        if d is None:
            out.count("agree")
        else:
            out.violation(
                {"kind": d[0], "family": case.family, "risk": G_risk(case), "backend_kind": "einsum" if "einsum" in str(b) else "other"},
                {"case": case.to_json(), "backend": b, "layout": layout, "detail": d[1]},
                f"einx.{case.op}({case.desc()!r}, shapes={case.in_shapes}, {kw}) backend={b}: {d[1]}",
            )


def run(spec, out):
    from ..gen import cases as G

    rng = random.Random(spec["seed"])
    nprng = np.random.default_rng(spec["seed"])
    P = {"maxlen": spec["maxlen"], "br_flat_p": 0.08, "dtype_p": 0.25}
    from .. import exec as X

    for i in range(spec["n"]):
        case = G.generate(rng, nprng, P=P)
        out.count(f"family:{case.family}")
        out.count(f"op:{case.op}")
        for f in case.feats:
            out.count(f"feat:{f}")
        if case.feats & NONTRIVIAL or len(case.inputs) > 1:
            units = tuple(sorted(k for k, v in case.sizes.items() if v == 1 and not k.startswith("_n")))
            out.distinct_key(f"{case.op}|{case.skeleton()}|{len(units)}")
        if i < 2:
            out.sample(case.to_json())
        # every case on the default selection plus two random other selections; layouts varied
        sels = [None] + rng.sample(X.BACKEND_SELECTIONS[1:], 2)
        run_case(case, out, sels, layouts_rng=rng)


def finalize(agg, tier, seed):
    c = agg.counters
    fams = ["id", "elementwise", "reduce", "dot", "get_at", "preserve", "argfind"]
    for f in fams:
        if c.get(f"family:{f}", 0) < 20:
            agg.inconclusive.append(f"family {f} observed only {c.get(f'family:{f}', 0)} times")
    if c.get("agree", 0) < 100:
        agg.inconclusive.append("fewer than 100 agreeing comparisons")
    return {"ops_seen": sorted(k[3:] for k in c if k.startswith("op:")), "features_seen": {k[5:]: int(v) for k, v in c.items() if k.startswith("feat:")}}
