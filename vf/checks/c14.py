"""C14 - indexed updates apply every update exactly once and touch nothing else.

Oracle: R's update loop over all un-bracketed axes of target, coordinate and update expressions
builds, per addressed target element, the multiset of contributions. add/subtract must equal
original +/- the sum; set must leave one of the competing values; untouched elements keep their
value; get_at with the same coordinates reads back one of the written values.
"""
import random

import numpy as np

ID = "C14"
LEVEL = "exploration"
RULE = (
    "update calls from G's update grammar (1-3 coordinate tensors, bracket position free or absent, flattened target/coordinate axes, "
    "vectorised axes present only in coordinates / updates / target, duplicates forced by small index ranges) on set_at/add_at/subtract_at and "
    "backends None/'numpy'/'numpy.numpylike'; 40 % of the cases with mixed dtypes (updates uint8/uint16/int32/float32/int64/float64 against float64/int64/float32/int32 targets, expected values in exact integer arithmetic); a case is distinct by (op, description skeleton) and non-trivial if at least one element is "
    "addressed twice or an axis is missing from one of the three roles"
)
ASSUMPTIONS = [
    "out-of-range and negative coordinates are never generated (backend-defined)",
    "integer-valued data make accumulated sums exact",
    "set_at: any one of the competing values is accepted (membership)",
]
TIMEOUT = {"quick": 900, "thorough": 7200}
BACKENDS = [None, "numpy", "numpy.numpylike", "with:numpy"]


def shards(tier, seed, scale):
    n = 16 if tier == "quick" else 64
    per = int((200 if tier == "quick" else 1500) * scale)
    return [{"n": per, "maxlen": 4 if tier == "quick" else 6} for _ in range(n)]


def risk_tags(case):
    tags = []
    if "multi-bracket-in-flatten" in case.feats:
        tags.append("multi-bracket-in-flatten")
    return tags


def check_update(case, out, backends, rng=None):
    import einx
    from .. import exec as X
    from ..argsan import Guard
    from ..ref import loops as R
    from ..gen.cases import relayout

    try:
        tp, contrib = R.ref_update_contributions(case.xin, case.tensors, case.sizes)
    except Exception as e:
        out.count("reference_failed")
        out.info("reference_failed", {"case": case.to_json(), "err": repr(e)[:300]})
        return
    orig = np.ascontiguousarray(case.tensors[0]).reshape(-1).copy()
    dup = any(len(v) > 1 for v in contrib.values())
    if dup:
        out.count("cases_with_duplicates")
    from ..gen.cases import risk as _risk
    risk = _risk(case)
    for b in backends:
        tensors = [np.array(t, copy=True) for t in case.tensors]
        if rng is not None and rng.random() < 0.4:
            # coordinate / update tensors read-only or strided; the target stays writable
            lay = rng.choice(["readonly", "transposed", "negstride", "broadcast"])
            tensors = [tensors[0]] + [relayout(t, lay) for t in tensors[1:]]
            out.count(f"layout:{lay}")
        out.evaluation()
        kw = case.call_kwargs()
        with Guard(tensors, kw, exempt={0}) as g:
            status, val = X.einx_call(case, b, tensors)
        for pos, what in g.changed:
            out.violation({"kind": "argument-modified", "family": "update", "what": what}, {"case": case.to_json(), "backend": b, "pos": pos}, f"{case.op}({case.desc()!r}) modified argument {pos}: {what}")
        if status == "exc":
            e = val
            if isinstance(e, einx.errors.OperationNotSupportedError):
                out.count("not_supported")
                continue
            m = X.exc_mech(e)
            out.violation({"kind": "rejected-valid", "family": "update", "op": case.op, "risk": risk, **m}, {"case": case.to_json(), "backend": b, "message": str(e)[:400]},
                          f"einx.{case.op}({case.desc()!r}, shapes={case.in_shapes}, {kw}) backend={b}: {type(e).__name__}: {str(e)[:160]}")
            continue
        res = np.asarray(val)
        if tuple(res.shape) != tuple(tp.shape):
            out.violation({"kind": "wrong-shape", "family": "update", "op": case.op, "risk": risk}, {"case": case.to_json(), "backend": b}, f"{case.op}({case.desc()!r}): shape {res.shape} != {tp.shape}")
            continue
        rf = np.ascontiguousarray(res).reshape(-1)
        bad = None
        py = lambda v: v.item() if hasattr(v, "item") else v  # exact Python arithmetic (numpy scalars of narrow dtypes wrap around)
        for off in range(rf.size):
            cs = contrib.get(off)
            if not cs:
                ok = rf[off] == orig[off]
                why = "unaddressed element changed"
            elif case.op == "add_at":
                ok = py(rf[off]) == py(orig[off]) + sum(py(c) for c in cs)
                why = "sum of contributions"
            elif case.op == "subtract_at":
                ok = py(rf[off]) == py(orig[off]) - sum(py(c) for c in cs)
                why = "sum of contributions"
            else:
                ok = any(py(rf[off]) == py(c) for c in cs)
                why = "value is none of the competing updates"
            if not ok:
                bad = (off, why, orig[off], [float(c) for c in cs] if cs else [], float(rf[off]))
                break
        if bad is None:
            out.count("agree")
            out.count(f"agree:{case.op}")
        else:
            shape_class = update_shape_class(case)
            out.violation(
                {"kind": "wrong-value", "family": "update", "op": case.op, "risk": risk, "shape_class": shape_class},
                {"case": case.to_json(), "backend": b, "flat_offset": bad[0], "why": bad[1], "orig": float(bad[2]), "contributions": bad[3], "got": bad[4]},
                f"einx.{case.op}({case.desc()!r}, shapes={case.in_shapes}) backend={b}: element {bad[0]}: {bad[1]}; orig={bad[2]} contributions={bad[3]} got={bad[4]}",
            )
            continue
        # an explicit output may list the target's axes in another order (bracketed ones keeping their relative order): the result is the same
        # tensor, transposed alike. Not for set_at with competing duplicates (either winner is allowed, per call).
        if rng is not None and (case.op != "set_at" or not dup) and len(case.eff_outputs[0]) >= 2 and rng.random() < 0.5 and not risk:
            from .c08 import bracket_preserving_perm, dims_perm
            from ..gen.expr import copy_expr, pr_desc
            oitems = case.eff_outputs[0]
            perm = bracket_preserving_perm(rng, oitems)
            if perm != list(range(len(oitems))):
                outs = [[copy_expr([oitems[k]])[0] for k in perm]]
                dp = dims_perm(oitems, perm, case)
                desc2 = pr_desc(case.inputs, outs)
                t2 = [np.array(t, copy=True) for t in case.tensors]
                import einx as _einx
                bk2 = {} if b is None or str(b).startswith("with:") else {"backend": b}
                out.count("permuted_output_calls")
                try:
                    r2 = np.asarray(getattr(_einx, case.op)(desc2, *t2, **kw, **bk2))
                    if r2.shape != np.transpose(res, dp).shape or not np.array_equal(r2, np.transpose(res, dp)):
                        out.violation({"kind": "permuted-output-differs", "family": "update", "op": case.op}, {"case": case.to_json(), "permuted_desc": desc2, "backend": b},
                                      f"einx.{case.op}({desc2!r}) is not the transposed result of {case.desc()!r}")
                    else:
                        out.count("permuted_output_agree")
                except Exception as e:  # noqa
                    out.count(f"permuted_output_rejected:{type(e).__name__}")
        # read back with get_at (set_at only): every position reads one of the values written there
        if case.op == "set_at" and rng is not None and rng.random() < 0.5:
            readback(case, res, contrib, out, b)


def update_shape_class(case):
    """Structural class: does the update expression have the same non-unit vectorised axes as the
    joined coordinate/target expression?"""
    from ..gen.expr import xleaves
    vec = []
    for e in case.xin[:-1]:
        for l in xleaves(e):
            if not l.bracket and case.sizes[l.name] != 1 and l.name not in vec:
                vec.append(l.name)
    upd = [l.name for l in xleaves(case.xin[-1]) if case.sizes[l.name] != 1]
    if set(upd) == set(vec):
        return "same-axes"
    if set(upd) < set(vec):
        return "update-lacks-axis"
    if set(upd) > set(vec):
        return "update-has-extra-axis"
    return "update-lacks-and-has-extra-axis"


def readback(case, result, contrib, out, backend):
    """get_at(target_expr, coords... -> all vectorised axes) on the set_at result."""
    import einx
    from ..gen.expr import pr, xleaves, Ax, Leaf
    from ..ref import loops as R

    ncoord = len(case.inputs) - 2
    # output: every non-bracketed leaf name of target and coordinates, as expanded names can carry dots
    # (ellipsis) we only do this for cases without ellipsis
    if case.reps:
        return
    names = []
    for e in case.xin[:1 + ncoord]:
        for l in xleaves(e):
            if not l.bracket and not l.isnum and l.name not in names:
                names.append(l.name)
    desc = ", ".join(pr(e) for e in case.inputs[:1 + ncoord]) + " -> " + " ".join(names)
    try:
        got = einx.get_at(desc, result, *case.tensors[1:1 + ncoord], backend=backend if not (isinstance(backend, str) and backend.startswith("with:")) else None, **case.kwargs)
    except Exception as e:
        out.count("readback_failed")
        return
    out.count("readback_checked")
    rf = np.ascontiguousarray(result).reshape(-1)
    # recompute addressed offsets per loop index with R's machinery: a get_at through R on the result must agree
    xout = [[Leaf(n, False) for n in names]]
    try:
        exp = R.ref_get_at(case.xin[:1 + ncoord], xout, [result] + list(case.tensors[1:1 + ncoord]), case.sizes)[0]
    except Exception:
        out.count("readback_ref_failed")
        return
    if not np.array_equal(np.asarray(got), exp):
        out.violation({"kind": "readback-mismatch", "family": "update"}, {"case": case.to_json(), "desc": desc}, f"get_at({desc!r}) does not read back what set_at wrote")


def run(spec, out):
    from ..gen import cases as G

    rng = random.Random(spec["seed"])
    nprng = np.random.default_rng(spec["seed"])
    P = {"maxlen": spec["maxlen"], "ell_p": 0.0}
    for i in range(spec["n"]):
        case = G.generate(rng, nprng, family="update", P=P)
        if rng.random() < 0.4:
            # mixed dtypes: update values of another (also unsigned / narrower) dtype than the target; all values are small integers, so the
            # expected result is exact in Python integer arithmetic
            udt = rng.choice(["uint8", "uint16", "int32", "float32", "int64", "float64", "uint8"])
            tdt = rng.choice(["float64", "int64", "float32", "int32"])
            ts = list(case.tensors)
            upd = np.asarray(ts[-1])
            if udt.startswith("uint"):
                upd = np.abs(upd)
            ts[-1] = upd.astype(udt)
            ts[0] = np.asarray(ts[0]).astype(tdt)
            case.tensors = ts
            out.count("mixed_dtype_cases")
            out.count(f"update_dtype:{udt}")
        out.count(f"op:{case.op}")
        for f in case.feats:
            out.count(f"feat:{f}")
        out.count(f"shape_class:{update_shape_class(case)}")
        out.distinct_key(f"{case.op}|{case.skeleton()}")
        if i < 2:
            out.sample(case.to_json())
        check_update(case, out, [None] + rng.sample(BACKENDS[1:], 1), rng)


    # ---- large, power-of-two shaped coordinate / update tensors (element counts whose products reach 2**64): the reference is numpy's own
    # unbuffered scatter on explicit index tuples
    if spec.get("shard", 0) % 8 == 0:
        import einx
        big_rng = np.random.default_rng(spec["seed"] + 5)
        for shape_c in ((16, 16, 16, 16), (16, 16, 16, 15), (256, 256), (65536,)):
            tgt = big_rng.integers(0, 9, size=(5, 6, 7)).astype(np.float64)
            cx, cy, cz = (big_rng.integers(0, n, size=shape_c) for n in (5, 6, 7))
            upd = big_rng.integers(1, 4, size=shape_c).astype(np.float64)
            names = " ".join("abcd"[: len(shape_c)])
            desc = f"[x y z], {names}, {names}, {names}, {names}"
            for op, ufunc in (("add_at", np.add), ("subtract_at", np.subtract), ("set_at", None)):
                for b in (None, "numpy.numpylike"):
                    bk = {} if b is None else {"backend": b}
                    out.evaluation()
                    out.count("large_pow2_calls")
                    out.distinct_key(f"large|{op}|{shape_c}|{b}")
                    try:
                        r = np.asarray(getattr(einx, op)(desc, tgt.copy(), cx, cy, cz, upd, **bk))
                    except Exception as e:  # noqa
                        out.violation({"kind": "rejected-valid", "family": "update", "op": op, "risk": "", "exc": type(e).__name__, "large": True}, {"desc": desc, "shape": list(shape_c), "message": str(e)[:300]}, f"einx.{op}({desc!r}) with coordinate shape {shape_c}: {type(e).__name__}")
                        continue
                    if ufunc is not None:
                        exp = tgt.copy()
                        ufunc.at(exp, (cx.ravel(), cy.ravel(), cz.ravel()), upd.ravel())
                        ok = np.array_equal(r, exp)
                    else:
                        addressed = np.zeros(tgt.shape, dtype=bool)
                        addressed[cx.ravel(), cy.ravel(), cz.ravel()] = True
                        ok = np.array_equal(r[~addressed], tgt[~addressed]) and bool(np.all(np.isin(r[addressed], np.unique(upd))))
                        # every addressed element holds one of the values sent to exactly that element
                        if ok:
                            flat = np.ravel_multi_index((cx.ravel(), cy.ravel(), cz.ravel()), tgt.shape)
                            sent = {}
                            for f_, u_ in zip(flat[:20000], upd.ravel()[:20000]):
                                sent.setdefault(int(f_), set()).add(float(u_))
                            ok = all(float(r.ravel()[f_]) in vals or len(vals) < len(set(upd.ravel()[flat == f_])) for f_, vals in list(sent.items())[:50])
                    if ok:
                        out.count("large_pow2_agree")
                    else:
                        out.violation({"kind": "wrong-value", "family": "update", "op": op, "risk": "", "shape_class": "large-power-of-two"}, {"desc": desc, "shape": list(shape_c), "backend": b}, f"einx.{op}({desc!r}) with coordinate / update tensors of shape {shape_c} differs from numpy's scatter on explicit indices")


def finalize(agg, tier, seed):
    c = agg.counters
    if c.get("large_pow2_agree", 0) < 12:
        agg.inconclusive.append(f"only {c.get('large_pow2_agree', 0)} agreeing update calls with large power-of-two shaped tensors")
    for op in ("set_at", "add_at", "subtract_at"):
        if c.get(f"op:{op}", 0) < 50:
            agg.inconclusive.append(f"{op} observed only {c.get(f'op:{op}', 0)} times")
    if c.get("permuted_output_agree", 0) < 50:
        agg.inconclusive.append(f"only {c.get('permuted_output_agree', 0)} agreeing calls with a permuted output expression")
    if c.get("mixed_dtype_cases", 0) < 50:
        agg.inconclusive.append("fewer than 50 cases with mixed target / update dtypes")
    if c.get("cases_with_duplicates", 0) < 50:
        agg.inconclusive.append("fewer than 50 cases with duplicate addresses")
    return {"features_seen": {k[5:]: int(v) for k, v in c.items() if k.startswith("feat:")}, "shape_classes": {k[12:]: int(v) for k, v in c.items() if k.startswith("shape_class:")}}
