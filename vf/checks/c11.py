"""C11 - backend selection follows the documented precedence and is stable.

Oracle: a small executable model of the documented rule (object > registered name > innermost
'with' > argument types; numpy/scalars defer; highest priority; 0 or >= 2 winners -> error;
unknown name -> ValueError; failed factory -> ImportBackendError only when selected). Synthetic
frameworks are registered on fresh BackendRegistry() instances (eager and on-import, healthy and
failing factories, priority ties); every lookup of a random history is compared with the model,
and every configuration is replayed under a different registration order.
"""
import random
import sys
import types

import numpy as np

ID = "C11"
LEVEL = "exploration"
RULE = (
    "random configurations of 1-5 synthetic frameworks (1-3 backends each, priorities from {-5,-2,-1,0,0,1}, eager or register-on-import, healthy or raising factories) plus numpy "
    "on fresh BackendRegistry() instances; histories of 3-14 steps (lazy import, with-protocol enter / exit / exit by exception with the use-stack compared to the model's, lookups by object / name / unknown name / argument types incl. mixed, scalar-only, "
    "unsupported, empty); each configuration replayed under a second registration order; plus fixed precedence checks on the real global registry; "
    "distinct by (configuration signature, lookup kind, expected outcome); non-trivial if >= 2 frameworks or a with-block or a failing factory is involved"
)
ASSUMPTIONS = ["synthetic backends stand in for torch/jax/...: only numpy is installed", "a tensor of a lazily registered framework exists only after its module was imported"]
TIMEOUT = {"quick": 600, "thorough": 3600}


def shards(tier, seed, scale):
    n = 16
    per = int((800 if tier == "quick" else 12000) * scale)
    return [{"n": per} for _ in range(n)]


SCALARS = [1, 2.0, True, np.float32(1), np.int64(3), np.bool_(False)]


def run(spec, out):
    import einx
    from einx._src.frontend.backend import BackendRegistry, Backend, InvalidBackend
    import einx.errors as E

    rng = random.Random(spec["seed"])

    def mk_backend(name, prio, ttype):
        return Backend(ops={}, name=name, priority=prio, optimizations=[], compiler=None, is_supported_tensor=(lambda t, ttype=ttype: isinstance(t, ttype)), get_shape=lambda t: ())

    for it in range(spec["n"]):
        tag = f"vffk{spec['shard']}_{it}_"
        nfw = rng.randint(1, 5)
        fws = []
        for i in range(nfw):
            T = type(f"T{i}", (), {})
            nb = rng.randint(1, 3)
            bks = [(f"fw{i}" + ("" if j == 0 else f".v{j}"), rng.choice([-5, -2, -1, 0, 0, 1]), rng.random() < 0.15) for j in range(nb)]
            fws.append(dict(T=T, mod=tag + f"fw{i}", bks=bks, lazy=rng.random() < 0.5))
        # a fixed script of steps, interpreted twice (two registration orders)
        steps = []
        for _ in range(rng.randint(3, 14)):
            k = rng.random()
            if k < 0.12:
                steps.append(("import", rng.randrange(nfw)))
            elif k < 0.27:
                steps.append(("enter", rng.random()))
            elif k < 0.37:
                steps.append(("exit", rng.random() < 0.4))  # True: the with-block is left by an exception
            else:
                tens = []
                for _ in range(rng.randint(0, 3)):
                    c = rng.random()
                    if c < 0.3:
                        tens.append(("np",))
                    elif c < 0.45:
                        tens.append(("scalar", rng.randrange(len(SCALARS))))
                    elif c < 0.9:
                        tens.append(("fw", rng.randrange(nfw)))
                    else:
                        tens.append(("obj",))
                c = rng.random()
                if c < 0.55:
                    barg = ("none",)
                elif c < 0.8:
                    barg = ("name", rng.random())
                else:
                    barg = ("object", rng.random())
                steps.append(("get", barg, tens, rng.random() < 0.25))
        orders = [list(range(nfw))]
        o2 = list(range(nfw))
        rng.shuffle(o2)
        orders.append(o2)
        transcripts = []
        for order in orders:
            transcripts.append(play(out, rng, fws, order, steps, mk_backend, BackendRegistry, Backend, InvalidBackend, E, it))
            for fw in fws:
                sys.modules.pop(fw["mod"], None)
        if transcripts[0] != transcripts[1]:
            out.violation({"kind": "registration-order-dependence"}, {"orders": orders, "t0": transcripts[0], "t1": transcripts[1], "config": [(f["bks"], f["lazy"]) for f in fws]},
                          f"outcomes differ between registration orders {orders}")
        else:
            out.count("order_pairs_equal")
        if it < 2:
            out.sample({"frameworks": [{"backends": f["bks"], "lazy": f["lazy"]} for f in fws], "steps": [s[0] for s in steps], "transcript": transcripts[0][:6]})
    real_registry_checks(out)


def play(out, rng, fws, order, steps, mk_backend, BackendRegistry, Backend, InvalidBackend, E, it):
    from einx._src.frontend.backend import Use
    reg = BackendRegistry()
    objs = {}
    M = dict(reg=[], pending={}, stack=[])
    imported = {i: False for i in range(len(fws))}

    def factory(name, prio, T, fail):
        def f():
            if fail:
                raise RuntimeError("boom")
            b = mk_backend(name, prio, T)
            objs[name] = b
            return b
        return f

    npb = mk_backend("numpy", -1, np.ndarray)
    reg.register(npb)
    objs["numpy"] = npb
    M["reg"].append(("numpy", -1, np.ndarray, True))
    for i in order:
        fw = fws[i]
        if not fw["lazy"]:
            sys.modules[fw["mod"]] = types.ModuleType(fw["mod"])
            imported[i] = True
        for (name, prio, fail) in fw["bks"]:
            reg.register_on_import(fw["mod"], name, factory(name, prio, fw["T"], fail))
            if imported[i]:
                M["reg"].append((name, prio, fw["T"], not fail))
            else:
                M["pending"].setdefault(fw["mod"], []).append((name, prio, fw["T"], not fail))

    def model_import(i):
        fw = fws[i]
        if not imported[i]:
            imported[i] = True
            sys.modules[fw["mod"]] = types.ModuleType(fw["mod"])
            M["reg"].extend(M["pending"].pop(fw["mod"], []))

    def model_get(barg, tensors):
        if isinstance(barg, (Backend, InvalidBackend)):
            return ("ok", barg.name)
        names = {n: ok for n, p, T, ok in M["reg"]}
        if isinstance(barg, str):
            return ("ok", barg) if barg in names else ("exc", "ValueError")
        if M["stack"]:
            return ("ok", M["stack"][-1])
        cands = set()
        for t in tensors:
            for n, p, T, ok in M["reg"]:
                if ok and isinstance(t, T):
                    cands.add((n, p))
        if all(isinstance(t, (int, float, bool, np.integer, np.floating, np.bool_)) for t in tensors):
            cands = {("numpy", -1)}
        if len(cands) > 1:
            mx = max(p for n, p in cands)
            cands = {(n, p) for n, p in cands if p == mx}
        if len(cands) == 1:
            return ("ok", next(iter(cands))[0])
        return ("exc", "BackendResolutionError")

    transcript = []
    allnames = [n for fw in fws for n, _, _ in fw["bks"]] + ["numpy", "nope"]
    for st in steps:
        if st[0] == "import":
            model_import(st[1])
            continue
        if st[0] == "enter":
            regd = sorted(n for n, _, _, _ in M["reg"])
            n = regd[int(st[1] * len(regd)) % len(regd)]
            try:
                b = reg.get(n)
                Use(b, reg).__enter__()  # the 'with backend:' protocol on this registry
                M["stack"].append(n)
            except Exception as e:  # noqa
                out.violation({"kind": "enter-failed", "exc": type(e).__name__}, {"name": n}, f"enter of registered backend {n} failed: {e!r}")
            continue
        if st[0] == "exit":
            if M["stack"]:
                n = M["stack"].pop()
                if st[1]:
                    err = RuntimeError("raised inside the with-block")
                    suppressed = Use(reg.get(n), reg).__exit__(RuntimeError, err, None)
                    out.count("with_left_by_exception")
                    if suppressed:
                        out.violation({"kind": "with-block-suppresses-exception"}, {"name": n}, f"leaving 'with {n}' by an exception suppressed the exception")
                else:
                    Use(reg.get(n), reg).__exit__(None, None, None)
                got_stack = [b.name for b in reg.state.use_stack]
                if got_stack != M["stack"]:
                    out.violation({"kind": "with-stack-not-restored", "by_exception": bool(st[1])}, {"expected": list(M["stack"]), "got": got_stack}, f"after leaving 'with {n}' (by exception: {st[1]}) the use-stack is {got_stack}, expected {M['stack']}")
                    reg.state.use_stack[:] = [reg.get(x) for x in M["stack"]]
            continue
        _, barg_s, tens_s, again = st
        tensors = []
        for t in tens_s:
            if t[0] == "np":
                tensors.append(np.zeros(2))
            elif t[0] == "scalar":
                tensors.append(SCALARS[t[1]])
            elif t[0] == "fw":
                model_import(t[1])
                tensors.append(fws[t[1]]["T"]())
            else:
                tensors.append(object())
        if barg_s[0] == "none":
            barg = None
            kind = "types" if not M["stack"] else "with"
        elif barg_s[0] == "name":
            barg = allnames[int(barg_s[1] * len(allnames)) % len(allnames)]
            kind = "name"
        else:
            keys = sorted(objs)
            barg = objs[keys[int(barg_s[1] * len(keys)) % len(keys)]]
            kind = "object"
        exp = model_get(barg, tensors)
        reps = 2 if again else 1
        for r in range(reps):
            out.evaluation()
            try:
                b = reg.get(barg, tensors)
                got = ("ok", b.name)
                # a failed factory raises only when it is actually selected and used
                ok_in_model = {n: ok for n, p, T, ok in M["reg"]}.get(b.name, True)
                try:
                    b.raise_on_import_failure()
                    raised = False
                except E.ImportBackendError:
                    raised = True
                if raised == ok_in_model:
                    out.violation({"kind": "import-failure-misreported"}, {"backend": b.name, "healthy": ok_in_model}, f"raise_on_import_failure of {b.name}: raised={raised}, healthy={ok_in_model}")
            except Exception as e:  # noqa
                got = ("exc", type(e).__name__)
            desc = {"lookup": kind, "barg": barg if isinstance(barg, (str, type(None))) else "obj:" + barg.name, "tensors": [type(t).__name__ for t in tensors], "stack": list(M["stack"]),
                    "registered": [(n, p, ok) for n, p, T, ok in M["reg"]], "repeat": r}
            if exp != got:
                out.violation({"kind": "selection-differs-from-model", "lookup": kind, "expected": exp[1] if exp[0] == "exc" else "backend", "got": got[1] if got[0] == "exc" else "backend"},
                              {**desc, "expected": exp, "got": got}, f"registry.get({desc['barg']!r}, {desc['tensors']}) with stack {desc['stack']}: expected {exp}, got {got}")
            else:
                out.count("agree")
                out.count(f"lookup:{kind}")
                out.count(f"outcome:{exp[1] if exp[0] == 'exc' else 'backend'}")
            transcript.append((kind, got))
            nontrivial = len(fws) >= 2 or M["stack"] or any(not ok for _, _, _, ok in M["reg"])
            if nontrivial:
                out.distinct_key(f"{sorted((n, p, ok) for n, p, T, ok in M['reg'])}|{kind}|{desc['tensors']}|{desc['stack']}|{exp}")
    return transcript


def real_registry_checks(out):
    """Documented precedence on the real global registry with the three numpy backends."""
    import einx
    x = np.arange(6.0).reshape(2, 3)
    get = einx.backend.get

    def name(f):
        try:
            return ("ok", f().name)
        except Exception as e:  # noqa
            return ("exc", type(e).__name__)

    einsum = get("numpy.einsum")
    checks = [
        ("types", lambda: get(None, [x]), ("ok", "numpy")),
        ("scalars", lambda: get(None, [1, 2.0]), ("ok", "numpy")),
        ("empty", lambda: get(None, []), ("ok", "numpy")),
        ("mixed-scalar", lambda: get(None, [x, 1.0]), ("ok", "numpy")),
        ("name", lambda: get("numpy.numpylike", [x]), ("ok", "numpy.numpylike")),
        ("object", lambda: get(einsum, [x]), ("ok", "numpy.einsum")),
        ("unknown", lambda: get("no.such.backend", [x]), ("exc", "ValueError")),
        ("unsupported", lambda: get(None, [object()]), ("exc", "BackendResolutionError")),
    ]
    for label, f, exp in checks:
        out.evaluation()
        got = name(f)
        if got != exp:
            out.violation({"kind": "real-registry-precedence", "case": label}, {"expected": exp, "got": got}, f"real registry {label}: expected {exp}, got {got}")
        else:
            out.count("real_agree")
    with einsum:
        for label, f, exp in [("with", lambda: get(None, [x]), ("ok", "numpy.einsum")), ("with-vs-name", lambda: get("numpy", [x]), ("ok", "numpy")),
                              ("with-vs-object", lambda: get(get("numpy.numpylike"), [x]), ("ok", "numpy.numpylike"))]:
            out.evaluation()
            got = name(f)
            if got != exp:
                out.violation({"kind": "real-registry-precedence", "case": label}, {"expected": exp, "got": got}, f"real registry {label}: expected {exp}, got {got}")
            else:
                out.count("real_agree")
        with get("numpy.numpylike"):
            got = name(lambda: get(None, [x]))
            if got != ("ok", "numpy.numpylike"):
                out.violation({"kind": "real-registry-precedence", "case": "nested-with"}, {"got": got}, f"nested with: {got}")
        got = name(lambda: get(None, [x]))
        if got != ("ok", "numpy.einsum"):
            out.violation({"kind": "real-registry-precedence", "case": "with-restored"}, {"got": got}, f"after inner with: {got}")
        # the backend named in generated code
        code = einx.sum("a [b]", x, graph=True)
        if "einsum" not in code:
            out.violation({"kind": "real-registry-precedence", "case": "graph-code-backend"}, {"code": code}, "code generated inside 'with numpy.einsum' does not use einsum")
        else:
            out.count("real_agree")
    got = name(lambda: get(None, [x]))
    if got != ("ok", "numpy"):
        out.violation({"kind": "real-registry-precedence", "case": "with-exit"}, {"got": got}, f"after with: {got}")
    # a with-block left by an exception (raised by an einx call or by user code) restores the selection as well
    for label, body in [("einx-error", lambda: einx.sum("a [b", x)), ("user-error", lambda: 1 / 0), ("op-not-supported", lambda: einx.softmax("a [b]", x))]:
        out.evaluation()
        try:
            with einsum:
                with get("numpy.numpylike") if label == "user-error" else einsum:
                    body()
            escaped = None
        except Exception as e:  # noqa
            escaped = type(e).__name__
        got = name(lambda: get(None, [x]))
        if escaped is None and label != "op-not-supported":
            out.violation({"kind": "real-registry-precedence", "case": "with-exception-suppressed"}, {"label": label}, f"exception raised inside a with-block did not propagate ({label})")
        elif got != ("ok", "numpy"):
            out.violation({"kind": "real-registry-precedence", "case": "with-exit-by-exception"}, {"got": got, "label": label}, f"after a with-block left by {escaped}: selection is {got}")
            from einx._src.frontend.backend import registry as _r
            _r.state.use_stack.clear()
        else:
            out.count("real_agree")
            out.count("real_with_left_by_exception")


def finalize(agg, tier, seed):
    c = agg.counters
    for k in ("lookup:types", "lookup:with", "lookup:name", "lookup:object", "outcome:BackendResolutionError", "outcome:ValueError", "order_pairs_equal", "real_agree", "with_left_by_exception", "real_with_left_by_exception"):
        if c.get(k, 0) < 10:
            agg.inconclusive.append(f"{k} observed only {c.get(k, 0)} times")
    return {}
