"""C03 - ill-formed calls are rejected with documented errors, never computed.

(i) universal, oracle-free: no call whatsoever may raise AssertionError, NameError, KeyError,
IndexError, AttributeError, RecursionError, UnboundLocalError or NotImplementedError out of a
public entry point (token soup, hostile argument types, wrong counts, corrupted valid calls).
(ii) classified: single-edit corruptions of valid G cases that the harness can prove ill-formed
(own bracket matcher, solver S, counting rule) must raise a documented class before any backend
computation (compiled function / tensor factory never ran) and must not return a value.
"""
import random

import numpy as np

ID = "C03"
LEVEL = "exploration"
RULE = (
    "(i) every public entry point (43 operations, solve*, matches via solve_shapes, check, rearrange, backend.get, both numpy adapters) called with token-soup descriptions, valid "
    "descriptions with hostile arguments (wrong rank/type/count, None, lists, strings, objects, callables returning garbage), hostile keyword sizes (float, str, nested, zero, huge) "
    "and options; (ii) valid G cases corrupted by one edit (dimension changed, root axis dropped/duplicated, keyword removed/contradicted, tensor removed/added, token inserted); "
    "a corruption counts as ill-formed only if the harness proves it (unbalanced delimiters or several '->', S: no solution / under-determined, count mismatch); "
    "distinct by (entry point, edit or input class, exception class); non-trivial = every call that is not accepted"
)
ASSUMPTIONS = ["ValueError/TypeError are accepted only when the edit touched argument counts/types or keyword value types", "'accepted' corruptions that the harness cannot prove ill-formed are only subject to monitor (i)"]
TIMEOUT = {"quick": 900, "thorough": 7200}


def shards(tier, seed, scale):
    n = 16 if tier == "quick" else 64
    return [{"n": int((400 if tier == "quick" else 2500) * scale), "nfuzz": int((2500 if tier == "quick" else 20000) * scale), "maxlen": 4} for _ in range(n)]


TOK = ["a", "b", "c", "ab", "1", "2", "3", "(", ")", "[", "]", "...", "->", ",", "+", " ", " ", " "]


def balanced(desc):
    """Own delimiter matcher + arrow count: returns False if the string is certainly syntactically invalid."""
    stack = []
    pairs = {")": "(", "]": "["}
    for ch in desc:
        if ch in "([":
            stack.append(ch)
        elif ch in ")]":
            if not stack or stack[-1] != pairs[ch]:
                return False
            stack.pop()
    if stack:
        return False
    return True


def run(spec, out):
    import einx
    import warnings
    from ..gen import cases as G
    from ..gen.expr import pr, pr_desc, copy_expr, Ax, Num, Br, Flat, Cat, Ell, walk
    from ..ref import solver as S
    from .. import hooks
    from ..util import FORBIDDEN, exc_site, einx_error_classes

    warnings.simplefilter("ignore")
    hooks.install()
    hooks.COUNT_INVOCATIONS[0] = True
    rng = random.Random(spec["seed"])
    nprng = np.random.default_rng(spec["seed"])
    OK = einx_error_classes()
    op_names = [n for n in ["id", "sum", "mean", "var", "std", "prod", "count_nonzero", "any", "all", "max", "min", "logsumexp", "add", "subtract", "multiply", "true_divide", "floor_divide",
                            "divide", "logical_and", "logical_or", "where", "maximum", "minimum", "less", "less_equal", "greater", "greater_equal", "equal", "not_equal", "logaddexp", "dot",
                            "get_at", "set_at", "add_at", "subtract_at", "softmax", "log_softmax", "sort", "argsort", "flip", "roll", "argmax", "argmin", "rearrange"] if hasattr(einx, n)]
    adapted_r = einx.numpy.adapt_numpylike_reduce(lambda x, axis, *, p=1: np.sum(x, axis=axis) * p)
    adapted_e = einx.numpy.adapt_numpylike_elementwise(lambda a, b, *, p=1: (a + b) * p)

    def universal(label, f, info):
        """monitor (i): run f, report forbidden classes."""
        out.evaluation()
        out.count(f"universal:{label}")
        try:
            f()
            out.count("universal_accepted")
            return ("ok", None)
        except FORBIDDEN as e:
            m = {"kind": "internal-exception", "exc": type(e).__name__, **exc_site(e)}
            out.violation(m, {"entry": label, **info, "message": str(e)[:200]}, f"{label}({info.get('desc')!r}, {info.get('args')}, {info.get('kwargs')}): {type(e).__name__}: {str(e)[:100]}")
            out.distinct_key(f"{label}|{type(e).__name__}|{m['site']}")
            return ("exc", e)
        except BaseException as e:  # noqa
            out.count(f"universal_exc:{type(e).__name__}")
            out.distinct_key(f"{label}|{info.get('cls', '')}|{type(e).__name__}")
            return ("exc", e)

    def hostile_tensor():
        r = rng.random()
        if r < 0.45:
            return nprng.integers(0, 3, size=tuple(rng.choice([1, 2, 3]) for _ in range(rng.randint(0, 4)))).astype(rng.choice([np.float64, np.int64, np.bool_]))
        return rng.choice([None, [1.0, 2.0], "abc", object(), 1, 2.5, True, np.float32(3), (lambda shape: np.zeros(shape)), (lambda shape: None), (lambda: 0), np.zeros((0, 2)), {"a": 1}, b"xy", np.array("s"), np.array([None, 1], dtype=object)])

    def hostile_kwargs():
        kw = {}
        for _ in range(rng.randint(0, 2)):
            k = rng.choice(["a", "b", "c", "ab", "zz", "shift", "keepdims", "backend", "graph"])
            if k == "backend":
                kw[k] = rng.choice(["numpy", "nope", 3, None, object(), "numpy.einsum"])
            elif k == "graph":
                kw[k] = rng.choice([True, False, 1, "yes"])
            elif k == "keepdims":
                kw[k] = rng.choice([True, False, 1, None, "x"])
            else:
                kw[k] = rng.choice([2, 0, -1, 2.0, "3", (2, 2), [2], [[1, 2]], np.int64(3), np.array([2, 3]), None, 2**40, True, (), [], 1.5, {"x": 1}])
        return kw

    # ---- (i) token soup and hostile arguments on every entry point
    for k in range(spec["nfuzz"]):
        mode = rng.random()
        if mode < 0.5:
            desc = "".join(rng.choice(TOK) for _ in range(rng.randint(1, 12)))
        elif mode < 0.9:
            c = G.generate(rng, nprng, P={"maxlen": 3})
            desc = c.desc()
        else:
            desc = rng.choice([None, 3, b"a b", ["a"], "", " ", "a" * 300, "(" * 40 + "a" + ")" * 40, "a\nb", "a\tb", "é", "a -> a -> a", "a b -> " + "c " * 40])
        name = rng.choice(op_names + ["solve", "solve_axes", "solve_shapes", "check", "matches", "adapted_reduce", "adapted_elementwise", "backend.get"])
        nargs = rng.randint(0, 4)
        args = [hostile_tensor() for _ in range(nargs)]
        kw = hostile_kwargs()
        info = {"desc": desc if isinstance(desc, str) else repr(desc), "args": [type(a).__name__ + (str(getattr(a, "shape", "")) if isinstance(a, np.ndarray) else "") for a in args], "kwargs": {a: repr(b)[:40] for a, b in kw.items()}, "cls": "fuzz"}
        if name == "adapted_reduce":
            f = lambda: adapted_r(desc, *args, **kw)
        elif name == "adapted_elementwise":
            f = lambda: adapted_e(desc, *args, **kw)
        elif name == "backend.get":
            f = lambda: einx.backend.get(kw.get("backend", desc if rng.random() < 0.3 else None), args)
        else:
            fn = getattr(einx, name)
            f = lambda: fn(desc, *args, **kw)
        universal(name, f, info)

    # ---- (ii) single-edit corruptions of valid cases
    fams = G.FAMILIES + ["update"]
    for it in range(spec["n"]):
        case = G.generate(rng, nprng, family=rng.choice(fams), P={"maxlen": spec["maxlen"]})
        fn = getattr(einx, case.op)
        base_desc = case.desc()
        edits = ["dim", "drop-root-axis", "dup-root-axis", "remove-kw", "contradict-kw", "remove-tensor", "add-tensor", "insert-token", "kw-type", "bracket-one-occurrence", "bracket-axis-everywhere", "drop-output"]
        chosen = rng.sample(edits, 4)
        if case.family == "dot":
            chosen.append("dot-third-occurrence")
        if case.op == "roll":
            chosen.append("roll-shift-length")
        chosen.append(rng.choice(["zero-kw", "zero-literal", "non-ascii-name"]))
        if case.family == "update" and rng.random() < 0.3:
            chosen.append("update-zero-size-syntax")
        if case.kwargs and rng.random() < 0.5:
            chosen.append("kw-float-after-valid-call")
        for edit in chosen:
            inputs = [copy_expr(e) for e in case.inputs]
            outputs = None if case.outputs is None else [copy_expr(e) for e in case.outputs]
            tensors = [np.array(t, copy=True) for t in case.tensors]
            kw = dict(case.kwargs)
            desc = None
            case_opts_override = None
            proof = None  # why the harness knows it is ill-formed
            allow_vt = False
            if edit == "dim":
                cands = [(i, d) for i, t in enumerate(tensors) for d in range(t.ndim)]
                if not cands:
                    continue
                i, d = rng.choice(cands)
                shape = list(tensors[i].shape)
                shape[d] += rng.choice([1, 2])
                tensors[i] = np.zeros(shape, dtype=tensors[i].dtype)
            elif edit == "drop-root-axis":
                cands = [i for i, e in enumerate(inputs) if len(e) >= 1]
                if not cands:
                    continue
                i = rng.choice(cands)
                del inputs[i][rng.randrange(len(inputs[i]))]
            elif edit == "dup-root-axis":
                cands = [i for i, e in enumerate(inputs) if len(e) >= 1]
                if not cands:
                    continue
                i = rng.choice(cands)
                k_ = rng.randrange(len(inputs[i]))
                inputs[i].insert(k_, copy_expr([inputs[i][k_]])[0])
            elif edit == "remove-kw":
                if not kw:
                    continue
                del kw[rng.choice(sorted(kw))]
            elif edit == "contradict-kw":
                if not kw:
                    continue
                k_ = rng.choice(sorted(kw))
                v = kw[k_]
                kw[k_] = (v + 1) if isinstance(v, int) else type(v)(x + 1 for x in v)
            elif edit == "remove-tensor":
                if not tensors:
                    continue
                del tensors[rng.randrange(len(tensors))]
                proof = "tensor-count"
                allow_vt = True
            elif edit == "add-tensor":
                tensors.insert(rng.randint(0, len(tensors)), np.zeros((2,)))
                proof = "tensor-count"
                allow_vt = True
            elif edit == "insert-token":
                d0 = base_desc
                pos = rng.randint(0, len(d0))
                tok = rng.choice(["(", ")", "[", "]", "->", ")(", "]["])
                desc = d0[:pos] + tok + d0[pos:]
                if not balanced(desc) or desc.count("->") > 1:
                    proof = "syntax"
            elif edit in ("bracket-one-occurrence", "bracket-axis-everywhere"):
                allexprs = inputs + (outputs or [])
                occ = []  # (expr index, parent list, position, name) of un-bracketed plain axes at any depth outside ellipses

                def scan(items, ei, in_br):
                    for pos_, n_ in enumerate(items):
                        if isinstance(n_, Ax) and not in_br:
                            occ.append((ei, items, pos_, n_.name))
                        elif isinstance(n_, Br):
                            scan(n_.items, ei, True)
                        elif isinstance(n_, Flat):
                            scan(n_.items, ei, in_br)

                for ei, e_ in enumerate(allexprs):
                    scan(e_, ei, False)
                if not occ:
                    continue
                if edit == "bracket-one-occurrence":
                    names_multi = [nm for nm in {o[3] for o in occ} if sum(1 for o in occ if o[3] == nm) >= 2]
                    if not names_multi:
                        continue
                    nm = rng.choice(sorted(names_multi))
                    ei, items_, pos_, _ = rng.choice([o for o in occ if o[3] == nm])
                    items_[pos_] = Br([Ax(nm)])
                    proof = "syntax:inconsistent-brackets"
                else:
                    # prefer names that occur only in outputs after the first one (broadcast axes), else any name
                    nin = len(inputs)
                    late = sorted({o[3] for o in occ if o[0] > nin} - {o[3] for o in occ if o[0] <= nin})
                    nm = rng.choice(late) if late and rng.random() < 0.7 else rng.choice(sorted({o[3] for o in occ}))
                    for ei, items_, pos_, name_ in occ:
                        if name_ == nm:
                            items_[pos_] = Br([Ax(nm)])
                    if case.family in ("id", "elementwise"):
                        proof = "rule:no-brackets-in-this-operation"
            elif edit == "drop-output":
                if outputs is None:
                    continue
                outputs = None
                # (a dot without any bracket and without '->' degenerates to the element-wise superset rule: not judged)
                if case.family == "get_at" or (case.family == "dot" and any(isinstance(n_, Br) for e_ in inputs for n_ in walk(e_))):
                    proof = "rule:output-expression-required"
                elif case.family == "elementwise" and len(inputs) >= 2:
                    # documented rule: the output may be omitted only if exactly one input contains the axis names of all others
                    def names_of(e_):
                        return {n_.name for n_ in walk(e_) if isinstance(n_, Ax)} | {n_.uid for n_ in walk(e_) if isinstance(n_, Num) and n_.value != 1}
                    ns = [names_of(e_) for e_ in inputs]
                    def norm(items_):
                        # '((k o))' and '(k o)' are the same expression: redundant nested parentheses do not make two inputs different
                        res_ = []
                        for n_ in items_:
                            if isinstance(n_, Flat):
                                inner_ = norm(n_.items)
                                while len(inner_) == 1 and isinstance(inner_[0], Flat):
                                    inner_ = inner_[0].items
                                res_.append(Flat(inner_))
                            elif isinstance(n_, (Br, Cat)):
                                res_.append(type(n_)(norm(n_.items)))
                            elif isinstance(n_, Ell):
                                res_.append(Ell(norm(n_.items), n_.group, n_.anon))
                            else:
                                res_.append(n_)
                        return res_
                    texts = [pr(norm(e_)) for e_ in inputs]
                    parents = [i_ for i_ in range(len(ns)) if all(ns[j_] <= ns[i_] for j_ in range(len(ns)) if j_ != i_)]
                    if len(parents) == 0 or len({texts[i_] for i_ in parents}) > 1:
                        proof = "rule:implicit-output-not-unique"
            elif edit == "dot-third-occurrence":
                # documented rule of dot: a contracted (bracketed) axis appears in exactly two input expressions. A further input '[k]' / '[k] f'
                # carrying the same bracketed axis (with a tensor of the right shape) makes it three.
                brk = sorted({n_.items[0].name for e_ in inputs for n_ in e_ if isinstance(n_, Br) and len(n_.items) == 1 and isinstance(n_.items[0], Ax)})
                brk = [nm for nm in brk if sum(1 for e_ in inputs if any(isinstance(m_, Ax) and m_.name == nm for m_ in walk(e_))) == 2 and nm in case.sizes]
                if not brk or outputs is None:
                    continue
                nm = rng.choice(brk)
                if rng.random() < 0.5:
                    inputs.append([Br([Ax(nm)])])
                    tensors.append(np.ones((case.sizes[nm],)))
                else:
                    inputs.append([Br([Ax(nm)]), Ax("zq")])
                    tensors.append(np.ones((case.sizes[nm], 2)))
                    outputs[0].append(Ax("zq"))
                proof = "rule:contracted-axis-in-exactly-two-inputs"
            elif edit == "update-zero-size-syntax":
                # a syntactically invalid description stays invalid when a coordinate/update tensor happens to be empty
                k_ = rng.randrange(1, len(tensors))
                tensors[k_] = np.zeros((0,) + tuple(tensors[k_].shape[1:]), dtype=tensors[k_].dtype)
                desc = base_desc + rng.choice([" (", " ]", " -> ->", ")("])
                proof = "syntax"
            elif edit == "zero-kw":
                # axis lengths are positive: a keyword size of 0 (python or numpy integer) is rejected, whatever else determines the axis
                ints = sorted(k_ for k_, v_ in kw.items() if isinstance(v_, int) and not isinstance(v_, bool))
                if not ints:
                    continue
                kw[rng.choice(ints)] = rng.choice([0, np.int64(0), np.int32(0)])
                proof = "rule:positive-sizes"
            elif edit == "zero-literal":
                # a literal 0 in place of a root-level named axis of an input (every dimension of the tensors is >= 1)
                cands = [(i_, j_) for i_, e_ in enumerate(inputs) for j_, n_ in enumerate(e_) if isinstance(n_, Ax) and i_ < len(tensors)]
                if not cands:
                    continue
                i_, j_ = rng.choice(cands)
                inputs[i_][j_] = Num(0)
                proof = "rule:positive-sizes"
            elif edit == "non-ascii-name":
                # axis names are ASCII identifiers: a name with a non-ASCII letter or digit inside, used consistently everywhere, is a syntax error
                names_ = sorted({n_.name for e_ in inputs + (outputs or []) for n_ in walk(e_) if isinstance(n_, Ax)})
                if not names_:
                    continue
                old_ = rng.choice(names_)
                new_ = old_ + rng.choice(["\u00e9", "\u00b2", "\u00df", "\u0663", "\uff41", "\u0431"])
                ren_ = {old_: new_}
                inputs = [copy_expr(e_, ren_) for e_ in inputs]
                outputs = None if outputs is None else [copy_expr(e_, ren_) for e_ in outputs]
                if old_ in kw:
                    kw[new_] = kw.pop(old_)
                proof = "syntax:axis-name"
            elif edit == "roll-shift-length":
                # one shift per rolled dimension (or a single one for all): a sequence of another length is rejected
                from ..gen.expr import elementary_dims
                if len(elementary_dims(case.xin[0], case.sizes)) != 1 or G.risk(case):
                    continue
                case_opts_override = {"shift": rng.choice([(1, 2), (1, 2, 3), (), [2, 1]])}
                proof = "rule:shift-length"
                allow_vt = True
            elif edit == "kw-float-after-valid-call":
                # the valid call first (compiled and cached), then the same call with one size given as a float of equal value:
                # sizes must be integral whatever was called before
                try:
                    fn(base_desc, *[np.array(t, copy=True) for t in case.tensors], **case.kwargs, **case.opts)
                except Exception:  # noqa
                    continue
                k_ = rng.choice(sorted(kw))
                v = kw[k_]
                kw[k_] = float(v) if isinstance(v, int) else type(v)(float(x) for x in v)
                if isinstance(v, (tuple, list)) and len(v) == 0:
                    continue
                proof = "keyword-type"
                allow_vt = True
            elif edit == "kw-type":
                if not kw:
                    continue
                k_ = rng.choice(sorted(kw))
                kw[k_] = rng.choice([2.5, "3", None, [1.5], {"a": 1}])
                proof = "keyword-type"
                allow_vt = True
            if desc is None:
                desc = pr_desc(inputs, outputs)
            # classify with S (only when the structure is still a list of expressions with as many tensors)
            risk = ""
            if proof is None and len(inputs) == len(tensors) and edit in ("dim", "drop-root-axis", "dup-root-axis", "remove-kw", "contradict-kw"):
                exprs = inputs + (outputs or [])
                shapes = [tuple(t.shape) for t in tensors] + [None] * len(outputs or [])
                try:
                    sol = S.propagate(exprs, shapes, kw)
                    if sol.rank == "contradiction" or sol.value == "contradiction":
                        proof = "S:no-solution"
                    elif edit == "remove-kw" and (sol.rank == "stuck" or sol.value == "stuck"):
                        # under-determined only if brute force confirms several solutions (S.propagate alone may be too weak)
                        proof = None
                except Exception:
                    proof = None
                if proof == "S:no-solution":
                    from .c02 import risk_tags as c02_risk
                    try:
                        from ..gen.expr import expand
                        st, reps = S.rank_propagate(exprs, shapes, kw)
                        xl = [[expand(e, reps) for e in exprs]] if st == "derived" else []
                    except Exception:
                        xl = []
                    risk = "+".join(t for t in c02_risk(exprs, kw, None, xl) if t == "isolated-composite")
            out.evaluation()
            out.count(f"edit:{edit}")
            hooks.counters["fn_invocations"] = 0
            factory_calls = [0]
            info = {"op": case.op, "orig": base_desc, "desc": desc, "shapes": [list(t.shape) for t in tensors], "kwargs": {a: repr(b) for a, b in kw.items()}, "edit": edit, "proof": proof}
            try:
                r = ("ok", fn(desc, *tensors, **kw, **{**case.opts, **(case_opts_override or {})}))
            except BaseException as e:  # noqa
                r = ("exc", e)
            ran = hooks.counters["fn_invocations"] > 0
            if r[0] == "exc" and isinstance(r[1], FORBIDDEN):
                e = r[1]
                crisk = G.risk(case)
                out.violation({"kind": "internal-exception", "exc": type(e).__name__, "family": case.family, "risk": crisk, **exc_site(e)}, {**info, "message": str(e)[:200]}, f"{case.op}({desc!r}, shapes={info['shapes']}, {info['kwargs']}) [{edit} of {base_desc!r}]: {type(e).__name__}: {str(e)[:100]}")
                continue
            out.distinct_key(f"{case.op}|{edit}|{proof}|{type(r[1]).__name__ if r[0] == 'exc' else 'accepted'}")
            if proof is None:
                out.count("corruption_unclassified")
                continue
            out.count("corruption_proved_ill_formed")
            if r[0] == "ok":
                out.violation({"kind": "accepted-unsolvable" if proof.startswith("S:") else "accepted-ill-formed", "api": "op", "proof": proof, "edit": edit, "risk": risk, "crisk": G.risk(case)}, info, f"{case.op}({desc!r}, shapes={info['shapes']}, {info['kwargs']}) [{edit} of {base_desc!r}] returned a value although it is ill-formed ({proof})")
                continue
            e = r[1]
            good = isinstance(e, OK) or (allow_vt and isinstance(e, (ValueError, TypeError)))
            if not good:
                out.violation({"kind": "ill-formed-wrong-exception-class", "exc": type(e).__name__, "proof": proof, "edit": edit, "crisk": G.risk(case), **exc_site(e)}, {**info, "message": str(e)[:300]},
                              f"{case.op}({desc!r}, shapes={info['shapes']}, {info['kwargs']}) [{edit} of {base_desc!r}]: {type(e).__name__} is not a documented error for {proof}: {str(e)[:100]}")
            elif ran:
                out.violation({"kind": "computation-before-rejection", "exc": type(e).__name__, "edit": edit}, info, f"{case.op}({desc!r}) [{edit}]: the compiled function ran before the call was rejected")
            else:
                out.count("ill_formed_rejected_properly")
                out.count(f"rejected:{type(e).__name__}")
        if it < 1:
            out.sample({"op": case.op, "desc": base_desc, "edits": "dim/drop/dup/kw/tensor/token"})


def finalize(agg, tier, seed):
    c = agg.counters
    for k in ("ill_formed_rejected_properly", "universal_accepted", "rejected:SyntaxError", "rejected:RankError", "rejected:AxisSizeError"):
        if c.get(k, 0) < 20:
            agg.inconclusive.append(f"monitor counter {k} = {c.get(k, 0)}")
    return {"exceptions_seen": {k[14:]: int(v) for k, v in c.items() if k.startswith("universal_exc:")}}
