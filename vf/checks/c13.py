"""C13 - tensor factories run once per call, with the resolved shape, only at run time.

Instrumented factories replace tensors of G's cases; every invocation is logged (shape argument,
keywords received, whether tracing was on the stack, the direct caller). Oracles: S for the shape,
the same call with plain tensors for the value, the log for 'exactly once / never while compiling /
never for graph=True / never for rejected calls', and misbehaving factories must make the call fail.
"""
import functools
import os
import inspect
import random
import sys

import numpy as np

ID = "C13"
LEVEL = "exploration"
RULE = (
    "G cases (all families except concatenating id) with a non-empty subset of argument positions replaced by instrumented factories of 8 signature classes (positional, optional "
    "keywords, **kwargs, callable object, functools.partial, keyword-only, callable object with a `shape` attribute, functools.wraps-decorated); call sequences cold -> warm -> other factory object of the same signature -> cold after "
    "cache_clear -> graph=True -> under-constrained variant -> misbehaving factory (wrong type / rank / shape / broadcast-compatible shape / numpy or Python scalar at a 0-d position); distinct by (op, skeleton, positions, "
    "signature classes); non-trivial if >= 1 factory was invoked"
)
ASSUMPTIONS = ["the factory's return value is the case's own data, so the plain-tensor call is the value oracle", "S's propagation decides which axes become undetermined once a shape is withheld"]
TIMEOUT = {"quick": 900, "thorough": 7200}


def shards(tier, seed, scale):
    n = 16 if tier == "quick" else 64
    return [{"n": int((90 if tier == "quick" else 800) * scale), "maxlen": 4} for _ in range(n)]


class Log:
    def __init__(self):
        self.entries = []

    def add(self, pos, shape, kwargs, up=2):
        f = sys._getframe(up)
        caller = (f.f_code.co_filename, f.f_code.co_name)
        tracing = False
        g = f
        depth = 0
        while g is not None and depth < 60:
            if g.f_code.co_name == "_construct_graph":
                tracing = True
                break
            g = g.f_back
            depth += 1
        self.entries.append({"pos": pos, "shape": shape, "kwargs": dict(kwargs), "caller": caller, "tracing": tracing})


def make_factory(kind, pos, data, log):
    """-> (callable, declared optional keywords or 'all')"""
    if kind == "positional":
        def f(shape):
            log.add(pos, shape, {})
            return data
        return f, set()
    if kind == "optional":
        def f(shape, name=None, arg_index=None):
            log.add(pos, shape, {k: v for k, v in (("name", name), ("arg_index", arg_index)) if v is not None})
            return data
        return f, {"name", "arg_index"}
    if kind == "varkw":
        def f(shape, **kw):
            log.add(pos, shape, kw)
            return data
        return f, "all"
    if kind == "object":
        class F:
            def __call__(self, shape, signature=None):
                log.add(pos, shape, {k: v for k, v in (("signature", signature),) if v is not None})
                return data
        return F(), {"signature"}
    if kind == "partial":
        def f(shape, extra, name=None):
            log.add(pos, shape, {k: v for k, v in (("name", name),) if v is not None})
            assert extra == 42
            return data
        return functools.partial(f, extra=42), {"name"}
    if kind == "kwonly":
        def f(shape, *, arg_index=None):
            log.add(pos, shape, {k: v for k, v in (("arg_index", arg_index),) if v is not None})
            return data
        return f, {"arg_index"}
    if kind == "object-with-shape":
        # a callable object that happens to carry a `shape` attribute (say, a lazily initialised parameter): a factory contributes no size
        # constraints, whatever attributes it has
        class P:
            shape = (7, 11, 13)

            def __call__(self, shape, name=None):
                log.add(pos, shape, {k: v for k, v in (("name", name),) if v is not None})
                return data
        return P(), {"name"}
    if kind == "wrapped":
        # a decorated factory: functools.wraps advertises the signature of the wrapped function, which declares `name` only
        def inner(shape, name=None):
            log.add(pos, shape, {k: v for k, v in (("name", name),) if v is not None}, up=3)  # (the caller of the wrapper)
            return data

        @functools.wraps(inner)
        def wrapper(*args, **kwargs):
            return inner(*args, **kwargs)
        return wrapper, {"name"}
    raise KeyError(kind)


KINDS = ["positional", "optional", "varkw", "object", "partial", "kwonly", "object-with-shape", "wrapped"]


def run(spec, out):
    import einx
    from ..gen import cases as G
    from .. import exec as X
    from .. import hooks
    from ..capture import same_value
    from ..util import exc_site

    rng = random.Random(spec["seed"])
    nprng = np.random.default_rng(spec["seed"])
    hooks.install()
    fams = [f for f in G.FAMILIES] + ["update"]
    for it in range(spec["n"]):
        case = G.generate(rng, nprng, family=rng.choice(fams), P={"maxlen": spec["maxlen"]})
        if "multi-bracket-in-flatten" in case.feats:
            out.count("skipped_known_cse_class")  # KF-CSE-MERGES-BRACKETED-AXES is C01's finding, not a factory matter
            continue
        n = len(case.tensors)
        # never replace the in-place target of update ops; keep one real tensor or name the backend
        cand = [i for i in range(n) if not (case.family == "update" and i == 0)]
        if not cand:
            continue
        k = rng.randint(1, len(cand))
        positions = sorted(rng.sample(cand, k))
        all_factories = len(positions) == n
        backend = "numpy" if all_factories or rng.random() < 0.2 else None
        try:
            kw_f = G.choose_kwargs(rng, case, extra_p=0.0, unknown=set(positions), start=case.kwargs, assign=False)
        except G.Skip:
            out.count("skipped_underdetermined")
            continue
        f = getattr(einx, case.op)
        desc = case.desc()
        opts = dict(case.opts)
        bk = {} if backend is None else {"backend": backend}
        cj = {**case.to_json(), "positions": positions, "kwargs_with_factories": {a: (list(b) if isinstance(b, (tuple, list)) else int(b)) for a, b in kw_f.items()}}
        # reference: plain tensors
        plain = [np.array(t, copy=True) for t in case.tensors]
        try:
            ref = ("ok", f(desc, *plain, **kw_f, **opts, **bk))
        except Exception as e:
            ref = ("exc", type(e).__name__)
        if ref[0] != "ok":
            out.count("reference_call_failed")
            continue
        out.count(f"family:{case.family}")
        kinds = {p: rng.choice(KINDS) for p in positions}
        out.distinct_key(f"{case.op}|{case.skeleton()}|{positions}|{sorted(kinds.values())}")
        if it < 2:
            out.sample({**cj, "factory_kinds": {str(p): k_ for p, k_ in kinds.items()}})

        def build(log, datas=None):
            args, declared = [], {}
            for i in range(n):
                if i in positions:
                    d = np.array(case.tensors[i], copy=True) if datas is None else datas[i]
                    fac, decl = make_factory(kinds[i], i, d, log)
                    args.append(fac)
                    declared[i] = decl
                else:
                    args.append(np.array(case.tensors[i], copy=True))
            return args, declared

        def check_log(log, label, declared, expect_calls=True):
            out.evaluation()
            per = {}
            for e in log.entries:
                per.setdefault(e["pos"], []).append(e)
            for p in positions:
                es = per.get(p, [])
                if expect_calls and len(es) != 1:
                    out.violation({"kind": "factory-call-count", "label": label, "count": min(len(es), 3)}, {**cj, "pos": p, "count": len(es)}, f"{case.op}({desc!r}) [{label}]: factory at position {p} invoked {len(es)} times")
                    continue
                if not expect_calls:
                    if es:
                        out.violation({"kind": "factory-invoked-unexpectedly", "label": label}, {**cj, "pos": p}, f"{case.op}({desc!r}) [{label}]: factory at position {p} was invoked")
                    continue
                e = es[0]
                exp_shape = tuple(int(x) for x in case.in_shapes[p])
                sh = e["shape"]
                if not (isinstance(sh, tuple) and all(type(x) is int for x in sh) and sh == exp_shape):
                    out.violation({"kind": "factory-shape-argument", "label": label}, {**cj, "pos": p, "got": repr(sh), "expected": exp_shape}, f"{case.op}({desc!r}) [{label}]: factory got shape {sh!r} (types {[type(x).__name__ for x in sh] if isinstance(sh, tuple) else type(sh).__name__}), expected {exp_shape}")
                decl = declared[p]
                allowed = {"name", "arg_index", "signature"} if decl == "all" else decl
                got = set(e["kwargs"])
                if not got <= allowed or (decl == "all" and got != allowed) or (decl != "all" and got != decl):
                    out.violation({"kind": "factory-keywords", "label": label, "factory": kinds[p]}, {**cj, "pos": p, "got": sorted(got), "declared": sorted(allowed)}, f"{case.op}({desc!r}) [{label}]: factory ({kinds[p]}) received keywords {sorted(got)}, declared {sorted(allowed)}")
                else:
                    if "arg_index" in e["kwargs"] and e["kwargs"]["arg_index"] != p:
                        out.violation({"kind": "factory-arg-index", "label": label}, {**cj, "pos": p, "got": e["kwargs"]["arg_index"]}, f"arg_index={e['kwargs']['arg_index']} for position {p}")
                    if "name" in e["kwargs"] and e["kwargs"]["name"] != case.op:
                        out.violation({"kind": "factory-name", "label": label}, {**cj, "pos": p, "got": e["kwargs"]["name"]}, f"name={e['kwargs']['name']!r} for op {case.op}")
                if e["tracing"]:
                    out.violation({"kind": "factory-invoked-while-compiling", "label": label}, {**cj, "pos": p}, f"{case.op}({desc!r}) [{label}]: factory invoked while the graph was being constructed")
                if not (e["caller"][0].startswith("<") or not os.path.exists(e["caller"][0])):  # generated code has no source file (whatever pseudo file name it is given)
                    out.violation({"kind": "factory-not-called-from-generated-code", "label": label}, {**cj, "pos": p, "caller": e["caller"]}, f"factory called from {e['caller']}")
                out.count("factory_invocations_checked")

        def call(label, expect="value"):
            log = Log()
            args, declared = build(log)
            hooks.window()
            try:
                r = ("ok", f(desc, *args, **kw_f, **opts, **bk))
            except Exception as e:
                r = ("exc", e)
            miss = bool(hooks.captured)
            out.count(f"{label}:{'miss' if miss else 'hit'}")
            if r[0] == "exc":
                e = r[1]
                out.violation({"kind": "factory-call-rejected", "label": label, "exc": type(e).__name__, **exc_site(e)}, {**cj, "message": str(e)[:300]}, f"{case.op}({desc!r}) with factories at {positions} [{label}]: {type(e).__name__}: {str(e)[:150]}")
                return None
            check_log(log, label, declared)
            if not same_value(r[1], ref[1]):
                out.violation({"kind": "factory-result-differs-from-plain-tensors", "label": label}, cj, f"{case.op}({desc!r}) [{label}]: result with factories differs from the call with their return values as tensors")
            else:
                out.count("result_equals_plain")
            return r

        cache = hooks.op_cache(f)
        if call("cold") is None:
            continue
        call("warm")
        call("other-factory-same-signature")
        # a factory of a DIFFERENT signature class on the warm cache: the keywords it receives must follow its
        # own signature, not the one the cached code was traced for
        saved_kinds = dict(kinds)
        for p_ in positions:
            kinds[p_] = rng.choice([k_ for k_ in KINDS if k_ != saved_kinds[p_]])
        call("other-signature-warm")
        kinds.update(saved_kinds)
        call("original-signature-again")
        cache.cache_clear()
        call("cold-again")
        # graph=True: never invoked
        log = Log()
        args, declared = build(log)
        try:
            code = f(desc, *args, graph=True, **kw_f, **opts, **bk)
        except Exception as e:
            out.violation({"kind": "factory-graph-true-rejected", "exc": type(e).__name__}, cj, f"graph=True with factories rejected: {type(e).__name__}")
            code = None
        check_log(log, "graph=True", declared, expect_calls=False)
        # under-constrained: withhold the keyword sizes that only the replaced shapes could have provided
        # (the number of coordinates of get_at / *_at / argmax is fixed by the operation itself: a single named
        # coordinate-count axis is derivable without any shape, several of them are not decided by S -> skip)
        fv = sorted(case.note.get("fixed_vars", ()))
        extra = {}
        if len(fv) <= 1:
            start = dict(case.kwargs)
            for v in fv:
                start[v] = int(case.var_sizes[v][0])
            try:
                kw2 = G.choose_kwargs(rng, case, extra_p=0.0, unknown=set(positions), start=start, assign=False)
                extra = {k_: v for k_, v in kw2.items() if k_ not in start}
            except G.Skip:
                extra = {}
        if extra:
            # propagation being stuck is not enough ('(u u)' = 9 has the unique solution u = 3): demand that brute force
            # finds at least two satisfying assignments that differ on a withheld axis
            from ..ref import solver as S_
            from ..gen.expr import expand as _expand, xleaves as _xl
            exprs_ = list(case.inputs) + list(case.outputs or [])
            shapes_ = [None if i in positions else tuple(s_) for i, s_ in enumerate(case.in_shapes)] + [None] * len(case.outputs or [])
            truly = False
            try:
                xs_ = [_expand(e_, case.reps) for e_ in exprs_]
                known_ = S_.leaf_kwargs(xs_, case.kwargs)
                for v_ in fv:
                    for e_ in xs_:
                        for l_ in _xl(e_):
                            if l_.tname == v_:
                                known_[l_.name] = int(case.var_sizes[v_][0])
                sols_ = S_.value_brute(xs_, shapes_, known_, S_.numvals_of(exprs_, xs_), cap=50000)
                if sols_ is not None and len(sols_) >= 2:
                    names_ = {l_.name for e_ in xs_ for l_ in _xl(e_) if l_.tname in extra}
                    truly = any(len({sol[n_] for sol in sols_}) > 1 for n_ in names_)
            except Exception:
                truly = False
            if not truly:
                out.count("underconstrained_not_confirmed_by_brute_force")
                extra = {}
        if extra:
            log = Log()
            args, declared = build(log)
            try:
                r = f(desc, *args, **case.kwargs, **opts, **bk)
                out.violation({"kind": "factory-contributed-size-constraint"}, {**cj, "withheld": sorted(extra)}, f"{case.op}({desc!r}) with factories at {positions} succeeded without sizes {sorted(extra)} that only the replaced tensors' shapes determine")
            except (einx.errors.AxisSizeError, einx.errors.RankError):
                out.count("underconstrained_rejected")
            except Exception as e:
                out.violation({"kind": "factory-underconstrained-wrong-exception", "exc": type(e).__name__, **exc_site(e)}, {**cj, "message": str(e)[:300]}, f"under-constrained factory call: {type(e).__name__}: {str(e)[:120]}")
            check_log(log, "under-constrained", declared, expect_calls=False)
        # misbehaving factories
        zero_d = [q for q in positions if np.ndim(case.tensors[q]) == 0]
        p = rng.choice(zero_d) if zero_d and rng.random() < 0.7 else rng.choice(positions)
        good = np.array(case.tensors[p], copy=True)
        bads = [("wrong-type", [1.0] if good.ndim else "x"), ("wrong-type-none", None), ("wrong-rank", good.reshape(good.shape + (1,))), ("wrong-shape", np.zeros(tuple(s + 1 for s in good.shape) if good.ndim else (2,)))]
        if good.ndim and any(s > 1 for s in good.shape):
            bshape = tuple(1 if (s > 1 and j == [j2 for j2, s2 in enumerate(good.shape) if s2 > 1][0]) else s for j, s in enumerate(good.shape))
            bads.append(("broadcast-compatible-shape", np.zeros(bshape, dtype=good.dtype)))
        if good.ndim == 0:
            # a scalar position: numpy scalars and Python numbers have the right "shape" but are not tensors of the backend
            bads += [("numpy-scalar", good[()]), ("python-scalar", good.item())]
        for label, badval in bads:
            log = Log()
            datas = {i: (badval if i == p else np.array(case.tensors[i], copy=True)) for i in positions}
            args, declared = build(log, datas)
            out.evaluation()
            try:
                r = f(desc, *args, **kw_f, **opts, **bk)
                out.violation({"kind": "misbehaving-factory-accepted", "bad": label}, {**cj, "pos": p}, f"{case.op}({desc!r}): factory at {p} returned a {label} value and the call still produced a result")
            except Exception as e:
                out.count(f"misbehaving_rejected:{label}")


def finalize(agg, tier, seed):
    c = agg.counters
    for k in ("factory_invocations_checked", "result_equals_plain", "warm:hit", "cold:miss", "cold-again:miss", "underconstrained_rejected", "misbehaving_rejected:wrong-shape", "misbehaving_rejected:numpy-scalar"):
        if c.get(k, 0) < (30 if "numpy-scalar" not in k else 5):
            agg.inconclusive.append(f"monitor counter {k} = {c.get(k, 0)}")
    return {}
