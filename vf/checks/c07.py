"""C07 - documented shorthand forms mean exactly their documented expansions.

Relational monitor: the short form and the long form of one generated case run on identical data
through the real einx; they must agree in values, shapes and arity, or fail with the same class.
"""
import random

import numpy as np

ID = "C07"
LEVEL = "exploration"
RULE = (
    "G cases of all families; for each applicable documented equivalence (implicit vs explicit output, un-bracketed vs bracketed reduce/dot, number vs named axis + keyword, "
    "anonymous vs named ellipsis, ellipsis vs written-out repetition, scalar vs tuple ellipsis size, nested vs top-level '->', adjacent vs merged brackets, keepdims vs "
    "parenthesised brackets, length-1 coordinate bracket vs none, extra vs single spaces, rearrange vs id) the pair is executed on the same data on a random numpy backend; "
    "distinct by (rule, op, skeleton); non-trivial = every pair (the two descriptions differ textually)"
)
ASSUMPTIONS = ["the long form is derived by the harness from G's own AST according to the documentation, not by einx", "both members run on the same backend selection and the same data"]
TIMEOUT = {"quick": 900, "thorough": 7200}


def shards(tier, seed, scale):
    n = 16 if tier == "quick" else 64
    return [{"n": int((260 if tier == "quick" else 2500) * scale), "maxlen": 4} for _ in range(n)]


def execute(call, backend):
    import einx
    f = getattr(einx, call["fn"])
    kw = dict(call["kwargs"])
    kw.update(call["opts"])
    if backend is not None:
        kw["backend"] = backend
    tensors = [np.array(t, copy=True) if isinstance(t, np.ndarray) else t for t in call["tensors"]]
    for pre in call.get("pre", ()):  # calls made before this one (their outcome does not matter)
        execute(pre, backend)
    try:
        r = f(call["desc"], *tensors, **kw)
        if call.get("post"):
            r = call["post"](r)
        return ("ok", r)
    except Exception as e:  # noqa
        return ("exc", e)


def run(spec, out):
    import einx
    import warnings
    from ..gen import cases as G
    from ..gen import sugar
    from ..capture import same_value
    from .. import exec as X
    from ..util import exc_site

    warnings.simplefilter("ignore")
    rng = random.Random(spec["seed"])
    nprng = np.random.default_rng(spec["seed"])
    fams = G.FAMILIES + ["update"]
    for it in range(spec["n"]):
        case = G.generate(rng, nprng, family=rng.choice(fams), P={"maxlen": spec["maxlen"], "ell_p": 0.2})
        b = rng.choice([None, None, "numpy", "numpy.numpylike", "numpy.einsum"])
        risk = G.risk(case)
        plist = sugar.pairs(case, rng)
        if rng.random() < 0.25:
            plist = plist + sugar.constructed_nested(rng, nprng)
        for label, short, long in plist:
            if label == "__transform_error__":
                out.count("transform_errors")
                out.info("transform_error", short)
                continue
            out.evaluation()
            out.count(f"rule:{label}")
            out.distinct_key(f"{label}|{case.op}|{case.skeleton()}")
            if isinstance(long, str) and long.startswith("MUST-RAISE:"):
                r1 = execute(short, b)
                want = long.split(":")[1]
                if r1[0] == "exc" and type(r1[1]).__name__ in (want, "OperationNotSupportedError"):
                    out.count("pairs_agree")
                    out.count(f"agree:{label}")
                else:
                    got = "a value" if r1[0] == "ok" else type(r1[1]).__name__
                    out.violation({"kind": "documented-rejection-missing", "rule": label, "got": "value" if r1[0] == "ok" else type(r1[1]).__name__, "family": case.family, "risk": risk},
                                  {"rule": label, "short": {"fn": short["fn"], "desc": short["desc"]}, "shapes": [list(np.shape(t)) for t in short["tensors"]], "backend": b},
                                  f"[{label}] {short['fn']}({short['desc']!r}) must raise {want} (no unique superset input), got {got}")
                continue
            r1 = execute(short, b)
            r2 = execute(long, b)
            wit = {"rule": label, "short": {"fn": short["fn"], "desc": short["desc"], "kwargs": {k: repr(v) for k, v in short["kwargs"].items()}, "opts": {k: repr(v) for k, v in short["opts"].items()}},
                   "long": {"fn": long["fn"], "desc": long["desc"], "kwargs": {k: repr(v) for k, v in long["kwargs"].items()}, "opts": {k: repr(v) for k, v in long["opts"].items()}},
                   "shapes": [list(np.shape(t)) for t in short["tensors"]], "backend": b}
            if it < 1:
                out.sample(wit)
            if r1[0] == "ok" and r2[0] == "ok":
                if same_value(r1[1], r2[1], inexact=X.is_inexact(case)) or same_value(r1[1], r2[1], inexact=True):
                    out.count("pairs_agree")
                    out.count(f"agree:{label}")
                else:
                    out.violation({"kind": "short-long-value-differs", "rule": label, "family": case.family, "risk": risk}, wit, f"[{label}] {short['fn']}({short['desc']!r}) != {long['fn']}({long['desc']!r}) on shapes {wit['shapes']}")
            elif r1[0] == "exc" and r2[0] == "exc":
                c1, c2 = type(r1[1]).__name__, type(r2[1]).__name__
                if c1 == c2:
                    out.count("pairs_fail_alike")
                else:
                    out.violation({"kind": "short-long-different-exception", "rule": label, "short": c1, "long": c2, "family": case.family, "risk": risk}, {**wit, "short_msg": str(r1[1])[:200], "long_msg": str(r2[1])[:200]},
                                  f"[{label}] {short['fn']}({short['desc']!r}) -> {c1}, {long['fn']}({long['desc']!r}) -> {c2}")
            else:
                ok_side, bad_side = ("short", "long") if r1[0] == "ok" else ("long", "short")
                e = r2[1] if r1[0] == "ok" else r1[1]
                out.violation({"kind": "one-form-rejected", "rule": label, "rejected": bad_side, "exc": type(e).__name__, "family": case.family, "risk": risk, **exc_site(e)}, {**wit, "message": str(e)[:300]},
                              f"[{label}] {short['fn']}({short['desc']!r}, {short['kwargs']}) vs {long['fn']}({long['desc']!r}, {long['kwargs']}): only the {ok_side} form is accepted; {bad_side}: {type(e).__name__}: {str(e)[:120]}")


    # ---- every reduction x keepdims: the random cases above reach a given (operation, flag) pair only now and then
    if spec.get("shard", 0) % 4 == 0:
        import warnings as _w
        x = nprng.integers(-3, 7, size=(2, 3, 4)).astype(np.float64)
        for op in G.REDUCE_OPS:
            xx = (x > 0) if op in ("any", "all") else x
            for short_d, long_d in (("a [b] c", "a ([b]) c"), ("[a] b [c]", "([a]) b ([c])"), ("a [b]...", "a ([b])...")):
                for b in (None, "numpy.numpylike"):
                    out.evaluation()
                    out.count("rule:keepdims-all-reductions")
                    out.distinct_key(f"keepdims-all|{op}|{short_d}|{b}")
                    bk = {} if b is None else {"backend": b}
                    with _w.catch_warnings():
                        _w.simplefilter("ignore")
                        try:
                            r1 = ("ok", getattr(einx, op)(short_d, xx, keepdims=True, **bk))
                        except Exception as e:  # noqa
                            r1 = ("exc", type(e).__name__)
                        try:
                            r2 = ("ok", getattr(einx, op)(long_d, xx, **bk))
                        except Exception as e:  # noqa
                            r2 = ("exc", type(e).__name__)
                    wit = {"rule": "keepdims-vs-parentheses", "op": op, "short": short_d, "long": long_d, "backend": b}
                    if r1[0] != r2[0] or (r1[0] == "exc" and r1[1] != r2[1]):
                        out.violation({"kind": "short-long-one-form-fails", "rule": "keepdims-all-reductions", "op": op}, {**wit, "short_outcome": str(r1[1])[:80] if r1[0] == "exc" else "ok", "long_outcome": str(r2[1])[:80] if r2[0] == "exc" else "ok"},
                                      f"[keepdims] {op}({short_d!r}, keepdims=True) -> {r1[0]}, {op}({long_d!r}) -> {r2[0]}")
                    elif r1[0] == "ok" and not (np.shape(r1[1]) == np.shape(r2[1]) and same_value(r1[1], r2[1], inexact=True)):
                        out.violation({"kind": "short-long-value-differs", "rule": "keepdims-all-reductions", "op": op}, {**wit, "short_shape": list(np.shape(r1[1])), "long_shape": list(np.shape(r2[1]))},
                                      f"[keepdims] {op}({short_d!r}, keepdims=True) has shape {np.shape(r1[1])}, {op}({long_d!r}) has shape {np.shape(r2[1])}")
                    else:
                        out.count("agree:keepdims-all-reductions")


def finalize(agg, tier, seed):
    c = agg.counters
    rules = ["keepdims-all-reductions", "implicit-vs-explicit-output", "number-vs-named-axis", "unbracketed-vs-bracketed", "ellipsis-vs-written-out", "extra-spaces", "rearrange-vs-id", "adjacent-brackets-merged",
             "anonymous-vs-named-ellipsis", "scalar-vs-tuple-size", "keepdims-vs-parentheses", "keepdims-after-plain-call", "unit-coordinate-bracket", "nested-arrow", "argfind-unit-bracket", "ambiguous-implicit-output-rejected", "nested-comma"]
    for r in rules:
        if c.get(f"agree:{r}", 0) < 5:
            agg.inconclusive.append(f"rule {r}: only {c.get(f'agree:{r}', 0)} agreeing pairs observed")
    return {"rules": {k[5:]: int(v) for k, v in c.items() if k.startswith("rule:")}}
