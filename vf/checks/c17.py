"""C17 - generated code is loop-free and size-generic.

Monitors on the text einx generates for G's cases (all families, numpy backends):
 (1) no For/While/If/IfExp/comprehension/match/try node in the AST of the text;
 (2) the same description compiled at scaled axis lengths (unit axes kept, every other named axis
     scaled by an independent factor 2-5) yields the same AST once integer literals are abstracted;
 (3) dynamic counterpart: sys.monitoring CALL events on the generated function's own code object
     give the same sequence of callee names at base and scaled sizes.
"""
import ast
import math
import random
import sys

import numpy as np

ID = "C17"
LEVEL = "exploration"
RULE = (
    "every G case (all families incl. update ops and tensor factories, three numpy backends) compiled at its base sizes and at 2 scaled size assignments that agree on which axes have "
    "length 1, plus (code only, graph=True on zero-stride views) one assignment scaled by 64-4096 per axis; distinct by (op, backend, literal-abstracted AST dump); non-trivial if the generated function has >= 2 statements"
)
ASSUMPTIONS = ["numeric axes written in the description are part of the description and are not scaled", "only integer literals are abstracted; strings (einsum specs, dtypes) must be identical"]
TIMEOUT = {"quick": 900, "thorough": 7200}
TOOL = 4

# what the property rules out: loops, conditionals, comprehensions (anything else - calls, indexing, assertions, definitions - is straight-line code)
FORBIDDEN_NODES = {"For", "AsyncFor", "While", "If", "IfExp", "ListComp", "SetComp", "DictComp", "GeneratorExp", "Match", "Try", "TryStar"}

ALLOWED = {
    "Module", "Import", "ImportFrom", "alias", "FunctionDef", "arguments", "arg", "Assign", "Return", "Assert", "Expr", "Call", "keyword", "Name", "Attribute", "Subscript", "Slice",
    "Tuple", "List", "Dict", "Constant", "Compare", "BinOp", "UnaryOp", "Load", "Store", "Eq", "NotEq", "Lt", "LtE", "Gt", "GtE", "Add", "Sub", "Mult", "USub", "AugAssign",
}


def shards(tier, seed, scale):
    n = 16 if tier == "quick" else 64
    return [{"n": int((110 if tier == "quick" else 900) * scale), "maxlen": 4} for _ in range(n)]


class _Abstract(ast.NodeTransformer):
    def visit_Constant(self, node):
        if isinstance(node.value, int) and not isinstance(node.value, bool):
            return ast.copy_location(ast.Constant(value=0), node)
        return node


def abstract_dump(text):
    tree = ast.parse(text)
    bad = sorted({type(n).__name__ for n in ast.walk(tree)} & FORBIDDEN_NODES)
    tree = _Abstract().visit(tree)
    return ast.dump(tree), bad


def scaled_case(case, rng, factors=(2, 3, 4, 5), huge=False):
    """Same description, unit axes kept, other named axes scaled by independent factors.
    huge=True: factors of 64-4096, tensors are zero-stride views (no memory); meant for graph=True only."""
    import copy
    from ..gen.cases import Skip
    c2 = copy.copy(case)
    c2.var_sizes = {}
    if huge:
        c2.note = {**case.note, "no_size_limit": True}
    fixed = case.note.get("fixed_vars", set())
    for name, vs in case.var_sizes.items():
        c2.var_sizes[name] = list(vs) if name in fixed else [v if v == 1 else v * rng.choice(factors) for v in vs]
    c2.kwargs = {}
    for k, v in case.kwargs.items():
        old = case.var_sizes[k]
        new = c2.var_sizes[k]
        if isinstance(v, (tuple, list)):
            c2.kwargs[k] = type(v)(new)
        else:
            # a scalar for an ellipsis axis stands for all repetitions: scale them identically
            if len(old) > 1 or (len(old) == 1 and case.var_group.get(k) is not None):
                f = new[0] // old[0] if old and old[0] else 1
                c2.var_sizes[k] = [o * f for o in old]
                c2.kwargs[k] = old[0] * f if old else v
            else:
                c2.kwargs[k] = new[0]
    c2.finish()
    if case.note.get("mark_reduced") is not None:
        from ..gen.expr import xleaves
        out_names = {l.tname for e in c2.xout for l in xleaves(e)}
        for e in c2.xin:
            for l in xleaves(e):
                l.bracket = l.tname not in out_names
    if any(math.prod(s) > (2**44 if huge else 300000) for s in c2.in_shapes + c2.out_shapes):
        raise Skip()
    c2.tensors = []
    for shape, dt, t in zip(c2.in_shapes, case.dtypes, case.tensors):
        if huge:
            c2.tensors.append(np.broadcast_to(np.zeros((), dtype=np.asarray(t).dtype), shape))
        else:
            c2.tensors.append(np.zeros(shape, dtype=np.asarray(t).dtype))
    return c2


def call_names(fn, args):
    """Sequence of callee names called directly from the generated function (and nested defs)."""
    mon = sys.monitoring
    names = []
    codes = []

    def rec(co):
        codes.append(co)
        for c in co.co_consts:
            if hasattr(c, "co_code"):
                rec(c)

    rec(fn.__code__)

    def cb(code, off, callable_, arg0):
        names.append(getattr(callable_, "__name__", type(callable_).__name__))

    mon.use_tool_id(TOOL, "vf-c17")
    try:
        mon.register_callback(TOOL, mon.events.CALL, cb)
        for co in codes:
            mon.set_local_events(TOOL, co, mon.events.CALL)
        try:
            fn(*args)
            status = "ok"
        except Exception as e:
            status = type(e).__name__
    finally:
        for co in codes:
            mon.set_local_events(TOOL, co, 0)
        mon.register_callback(TOOL, mon.events.CALL, None)
        mon.free_tool_id(TOOL)
    return names, status


def run(spec, out):
    import einx
    from ..gen import cases as G
    from .. import hooks
    from ..capture import capture, fresh_args

    rng = random.Random(spec["seed"])
    nprng = np.random.default_rng(spec["seed"])
    hooks.install()
    fams = G.FAMILIES + ["update"]
    for i in range(spec["n"]):
        case = G.generate(rng, nprng, family=rng.choice(fams), P={"maxlen": spec["maxlen"]})
        b = rng.choice([None, "numpy.numpylike", "numpy.einsum"])
        status, val, rec, _ = capture(case, b)
        out.evaluation()
        if rec is None or rec.code is None or not callable(rec.fn):
            out.count("no_record")
            continue
        text = rec.code
        try:
            dump0, bad = abstract_dump(text)
        except SyntaxError as e:
            out.violation({"kind": "generated-text-not-python"}, {"case": case.to_json(), "text": text}, f"generated text does not parse: {e}")
            continue
        out.count("asts_checked")
        if bad:
            out.violation({"kind": "forbidden-ast-node", "nodes": bad}, {"case": case.to_json(), "text": text}, f"generated code for {case.op}({case.desc()!r}) contains {bad}")
            continue
        if text.count("\n") >= 3:
            out.distinct_key(f"{case.op}|{b}|{hash(dump0) & 0xFFFFFFFF:x}")
        if i < 1:
            out.sample({"case": case.to_json(), "backend": b, "text": text})
        if not any(isinstance(n_, ast.FunctionDef) for n_ in ast.parse(text).body):
            out.count("no_function_in_text")
            continue
        names0, st0 = call_names(rec.fn, fresh_args(case))
        for k in range(2):
            try:
                c2 = scaled_case(case, rng)
            except Exception:
                out.count("scaling_skipped")
                continue
            st2, val2, rec2, _ = capture(c2, b)
            if rec2 is None or rec2.code is None:
                # the scaled call was rejected although the base call compiled: sizes changed the outcome
                if st2 == "exc" and status == "ok":
                    e = val2
                    out.violation({"kind": "scaled-sizes-rejected", "exc": type(e).__name__}, {"case": case.to_json(), "scaled_shapes": [list(s) for s in c2.in_shapes], "scaled_kwargs": {k_: (list(v) if isinstance(v, (tuple, list)) else int(v)) for k_, v in c2.kwargs.items()}, "message": str(e)[:300]},
                                  f"{case.op}({case.desc()!r}) compiles at {case.in_shapes} but is rejected at scaled sizes {c2.in_shapes}: {type(e).__name__}")
                else:
                    out.count("scaled_no_record")
                continue
            dump2, bad2 = abstract_dump(rec2.code)
            out.count("scaled_pairs")
            if dump2 != dump0:
                out.violation({"kind": "structure-depends-on-sizes", "family": case.family}, {"case": case.to_json(), "base_text": text, "scaled_text": rec2.code, "scaled_shapes": [list(s) for s in c2.in_shapes]},
                              f"generated code for {case.op}({case.desc()!r}) differs structurally between sizes {case.in_shapes} and {c2.in_shapes}")
                continue
            out.count("scaled_same_structure")
            if callable(rec2.fn) and st0 == "ok":
                names2, st2r = call_names(rec2.fn, fresh_args(c2))
                if st2r == "ok":
                    out.count("dynamic_pairs")
                    if names2 != names0:
                        out.violation({"kind": "call-sequence-depends-on-sizes", "family": case.family}, {"case": case.to_json(), "base_calls": names0, "scaled_calls": names2},
                                      f"{case.op}({case.desc()!r}): {len(names0)} backend calls at base sizes, {len(names2)} at scaled sizes")
                    else:
                        out.count("dynamic_same_calls")
                        out.count("backend_calls_observed", len(names0))


        # (2b) sizes scaled by 64-4096 (tensors are zero-stride views; only the code is requested): thresholds on element counts
        # (fast paths for big tensors) would show as a structural difference
        from .. import exec as X
        try:
            c3 = scaled_case(case, rng, factors=(64, 256, 1024, 4096), huge=True)
        except Exception:
            out.count("huge_scaling_skipped")
            continue
        hooks.window()
        st3, text3 = X.einx_call(c3, b, list(c3.tensors), graph=True)
        if st3 != "ok" or not isinstance(text3, str):
            if st3 == "exc" and status == "ok":
                out.violation({"kind": "scaled-sizes-rejected", "exc": type(text3).__name__, "scale": "huge"}, {"case": case.to_json(), "scaled_shapes": [list(s) for s in c3.in_shapes], "message": str(text3)[:300]},
                              f"{case.op}({case.desc()!r}) compiles at {case.in_shapes} but is rejected at sizes {c3.in_shapes}: {type(text3).__name__}")
            else:
                out.count("huge_no_text")
            continue
        dump3, _ = abstract_dump(text3)
        out.count("huge_pairs")
        if max(math.prod(s) for s in c3.in_shapes + c3.out_shapes) >= 2**16:
            out.count("huge_pairs_over_65536_elements")
        if dump3 != dump0:
            out.violation({"kind": "structure-depends-on-sizes", "family": case.family, "scale": "huge"}, {"case": case.to_json(), "base_text": text, "scaled_text": text3, "scaled_shapes": [list(s) for s in c3.in_shapes]},
                          f"generated code for {case.op}({case.desc()!r}) differs structurally between sizes {case.in_shapes} and {c3.in_shapes}")
        else:
            out.count("huge_same_structure")


def finalize(agg, tier, seed):
    c = agg.counters
    for k in ("asts_checked", "scaled_same_structure", "dynamic_same_calls", "huge_same_structure", "huge_pairs_over_65536_elements"):
        if c.get(k, 0) < 100:
            agg.inconclusive.append(f"monitor counter {k} = {c.get(k, 0)}")
    return {}
