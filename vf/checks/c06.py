"""C06 - a call's outcome does not depend on earlier calls (cache transparency).

Random histories of calls (valid calls of every family, calls failing at parse / solve / semantic
check / run time, solve_* calls, nested 'with backend' blocks also left by exception, confusable
argument groups placed adjacently) run in one long-lived process; the outcome of every call is
compared with the outcome of the same call in the same 'with' nesting in a pristine einx (a side
process that re-imports einx for every query; audited against children forked from a zygote that
never made an einx call). Secondary monitors after every call: tracer
dependency stack empty, registry use-stack equals the harness's own nesting.
"""
import hashlib
import random
import re

import numpy as np

ID = "C06"
LEVEL = "exploration"
RULE = (
    "histories of 40-160 calls drawn with repetition from a pool of ~120 calls per shard (G cases of all families incl. update ops and graph=True variants; failing calls; "
    "factories incl. misbehaving ones; adapter calls incl. axis names that other adapters (created as history events) declare as keyword-only options; with-blocks left by the exception of a failing call; confusable groups: sizes 2/2.0/True/np.int64(2)/np.float64(2), (2,2)/[2,2]/array([2,2]), shift 1/1.0/True/(1,)/[1], "
    "keepdims True/1, 0-d tensor as ndarray/python scalar/numpy scalar, adapter option 2/2.0) in nestings {none, with numpy.einsum, with numpy.numpylike}; each outcome compared with the "
    "pristine-process outcome; distinct by (call, nesting, position class hit/miss); non-trivial = calls that were cache hits or followed a failing call"
)
ASSUMPTIONS = ["outcome = exception class | dtype, shape, bytes of every returned tensor | graph=True text up to variable naming (identifiers alpha-renamed in order of first appearance, addresses masked)", "the pristine oracle runs with the same PYTHONHASHSEED", "pristine = a process forked before any einx call in which all einx modules are dropped and imported again for every query, with freshly built user callables (sympy's own caches stay warm); 8 % of the queries are also answered by a fork-per-query child that never ran einx, and the two must agree"]
TIMEOUT = {"quick": 1500, "thorough": 9000}
BUDGET_S = {"quick": 240, "thorough": 1500}  # per shard: stop issuing new calls afterwards (what was observed still counts)
WORKERS = 8  # fork + copy-on-write is slow in this sandbox (~4 s per forked child under load); the re-import server needs one fork per shard only


def shards(tier, seed, scale):
    n = 8 if tier == "quick" else 16
    return [{"histories": int((6 if tier == "quick" else 60) * scale) or 1, "pool": 142 if tier == "quick" else 212, "maxlen": 3} for _ in range(n)]


_ADDR = re.compile(r"0x[0-9a-fA-F]+")


def alpha_normalise(text):
    """Generated code up to variable naming: every identifier bound in the text (variables, parameters, function names, import aliases) is renamed
    in order of first appearance; comments vanish. Text that is not Python is returned with addresses masked only."""
    import ast
    text = _ADDR.sub("0x", text)
    try:
        tree = ast.parse(text)
    except SyntaxError:
        return text
    bound = {}

    def name_for(n):
        return bound.setdefault(n, f"v{len(bound)}")

    class Collect(ast.NodeVisitor):
        def visit_FunctionDef(self, node):
            name_for(node.name)
            for a in node.args.posonlyargs + node.args.args + node.args.kwonlyargs:
                name_for(a.arg)
            self.generic_visit(node)

        def visit_Name(self, node):
            if isinstance(node.ctx, ast.Store):
                name_for(node.id)

        def visit_alias(self, node):
            name_for(node.asname or node.name.split(".")[0])

    Collect().visit(tree)

    class Rename(ast.NodeTransformer):
        def visit_FunctionDef(self, node):
            node.name = bound.get(node.name, node.name)
            for a in node.args.posonlyargs + node.args.args + node.args.kwonlyargs:
                a.arg = bound.get(a.arg, a.arg)
            self.generic_visit(node)
            return node

        def visit_Name(self, node):
            node.id = bound.get(node.id, node.id)
            return node

        def visit_alias(self, node):
            key = node.asname or node.name.split(".")[0]
            if key in bound:
                node.asname = bound[key]
            return node

    return ast.unparse(Rename().visit(tree))


def digest(v):
    if isinstance(v, str):
        return "S:" + hashlib.sha1(alpha_normalise(v).encode()).hexdigest()[:12]
    if isinstance(v, (tuple, list)):
        return "T(" + ",".join(digest(i) for i in v) + ")"
    if isinstance(v, dict):
        return "D(" + ",".join(f"{k}={digest(x)}" for k, x in sorted(v.items())) + ")"
    if isinstance(v, (bool, int, float)) and not isinstance(v, np.generic):
        return f"P:{type(v).__name__}:{v!r}"
    a = np.asarray(v)
    return f"{a.dtype.str}{tuple(a.shape)}:" + hashlib.sha1(np.ascontiguousarray(a).tobytes()).hexdigest()[:12]


def build_pool(rng, nprng, n, maxlen):
    """List of call descriptors: dict(label, make) where make() -> (callable, args, kwargs). No einx call is made here."""
    from ..gen import cases as G
    pool = []

    def add(label, fname, desc, tensors, kwargs, adapter=None):
        pool.append({"label": label, "fname": fname, "desc": desc, "tensors": tensors, "kwargs": kwargs, "adapter": adapter})

    fams = G.FAMILIES + ["update"]
    while len(pool) < max(8, n - 135):
        c = G.generate(rng, nprng, family=rng.choice(fams), P={"maxlen": maxlen})
        kw = c.call_kwargs()
        if rng.random() < 0.3:
            kw["backend"] = rng.choice(["numpy", "numpy.numpylike", "numpy.einsum"])
        add("valid", c.op, c.desc(), c.tensors, kw)
        if rng.random() < 0.35:
            add("graph", c.op, c.desc(), c.tensors, {**kw, "graph": True})
        if rng.random() < 0.3 and c.tensors and np.asarray(c.tensors[0]).ndim > 0:
            bad = [np.zeros(tuple(s + 1 for s in np.shape(c.tensors[0])))] + list(c.tensors[1:])
            add("fail-solve", c.op, c.desc(), bad, kw)
        if rng.random() < 0.2:
            add("fail-parse", c.op, c.desc() + " (", c.tensors, kw)
        if rng.random() < 0.2:
            add("solve_axes", "solve_axes", c.desc().split("->")[0], c.tensors, dict(c.kwargs))
            add("matches", "matches", c.desc().split("->")[0], c.tensors, dict(c.kwargs))
    x = np.arange(6.0).reshape(2, 3)
    # confusable groups (adjacent in the pool so that histories often place them next to each other)
    for v in (2, 2.0, True, np.int64(2), np.float64(2.0), 3):
        add("conf-size", "id", "a b -> a b c", [x], {"c": v})
    for v in ((2, 2), [2, 2], np.array([2, 2]), (2, 2.0), 2):
        add("conf-size-seq", "id", "a b -> a b c...", [x], {"c": v})
    for v in (1, 1.0, True, (1,), [1], np.int64(1), (1, 1)):
        add("conf-shift", "roll", "a [b]", [x], {"shift": v})
    for v in (True, 1, False, 0, None):
        add("conf-keepdims", "sum", "a [b]", [x], {"keepdims": v})
    for v in (np.asarray(2.0), 2.0, np.float64(2.0), 2, True, np.int64(2), (lambda shape: np.full(shape, 2.0))):
        add("conf-scalar-tensor", "add", "a b, ", [x, v], {})
    for v in (x, x.astype(np.float32), x.astype(np.int64), x.T.copy().T, np.arange(8.0).reshape(2, 4)):
        add("conf-dtype-shape", "sum", "a [b]", [v], {})
    f_good = lambda shape: np.ones(shape)
    f_bad_shape = lambda shape: np.ones(tuple(s + 1 for s in shape))
    f_bad_type = lambda shape: [1.0]
    for lab, f in (("factory-good", f_good), ("factory-bad-shape", f_bad_shape), ("factory-bad-type", f_bad_type), ("factory-good2", lambda shape: np.ones(shape) * 2)):
        add(lab, "add", "a b, b", [x, f], {})
    for p in (2, 2.0, True, 3):
        add("adapter-option", None, "a [b]", [x], {"p": p}, adapter="reduce")
    add("adapter-raises", None, "a [b]", [x], {"p": "boom"}, adapter="reduce")
    # adapters of functions WITHOUT keyword-only parameters, with axis names that other adapted functions (created during the
    # history, see run()) declare as keyword-only options: which names are options is a property of the adapted function alone
    y3 = np.arange(3.0)
    for nm in ("k", "n", "q"):
        add("adapter-axisname", None, f"a {nm}, {nm} -> a {nm}", [x, y3], {}, adapter="ew")
        add("adapter-axisname", None, f"a {nm}, {nm} -> ({nm} a)", [x, y3], {nm: 3}, adapter="ew")
        add("adapter-axisname", None, f"a [{nm}]", [x], {}, adapter="red2")
        add("adapter-axisname", None, f"{nm} [b]", [x], {nm: 2, "p": 2}, adapter="reduce")
    # factories of different signatures on the same call: what they receive (and hence return) follows their own signature
    def fs_plain(shape):
        return np.ones(shape)

    def fs_named(shape, name=None):
        return np.ones(shape) * (2 if name else 1)

    def fs_varkw(shape, **kw):
        return np.ones(shape) * (10 + len(kw))

    def fs_kwonly(shape, *, arg_index=None):
        return np.ones(shape) * (5 if arg_index is not None else 1)

    for f in (fs_plain, fs_named, fs_varkw, fs_kwonly, fs_plain):
        add("factory-signature", "add", "a b, b", [x, f], {})
    # one description string used by operations of different families (whatever each outcome is in a pristine process, it must not depend on
    # which other operation saw the same string before): reductions/dot rewrite brackets into the parsed expression, shape-preserving ops check them
    x14 = np.arange(4.0).reshape(1, 4)
    x12 = np.arange(12.0)
    for dsc, tens in (("a b -> b", [x14]), ("a ... -> a", [x12]), ("a b -> a b", [x]), ("a b", [x]), ("a [b]", [x]), ("b... -> b...", [x])):
        for opn, kw_ in (("sum", {}), ("mean", {}), ("roll", {"shift": 1}), ("flip", {}), ("max", {}), ("sort", {}), ("softmax", {}), ("id", {}), ("logsumexp", {})):
            add("same-description", opn, dsc, tens, dict(kw_))
    # factories that live only for the duration of one call (created inside perform(), four signatures): object addresses get reused
    for kind in ("plain", "named", "varkw", "argidx", "plain", "named"):
        add("fresh-factory", "add", "a b, b", [x, ("__fresh_factory__", kind)], {})
        add("fresh-factory", "multiply", "a b, a", [x, ("__fresh_factory__", kind)], {})
    add("semantic", "sort", "[a] [b]", [x], {})
    add("semantic", "dot", "a b, b c", [x, x.T], {})
    add("unknown-backend", "sum", "a [b]", [x], {"backend": "no.such"})
    return pool


def make_adapters(einx):
    def adapted_fn(x, axis, *, p=1):
        if p == "boom":
            raise RuntimeError("user function failed")
        return np.sum(x, axis=axis) * p

    def plain_ew(a, b):
        return a + b

    def plain_red(a, axis):
        return np.sum(a, axis=axis)

    return {"reduce": einx.numpy.adapt_numpylike_reduce(adapted_fn), "ew": einx.numpy.adapt_numpylike_elementwise(plain_ew), "red2": einx.numpy.adapt_numpylike_reduce(plain_red)}


def perform(pool, adapters, idx, ctx, escape=False):
    """Execute pool[idx] inside the nesting ctx (list of backend names) -> digest string.
    escape=True: an exception raised by the call leaves the with-blocks (it is caught outside them)."""
    import einx
    import contextlib
    item = pool[idx]
    args = [np.array(t, copy=True) if isinstance(t, np.ndarray) else t for t in item["tensors"]]
    for k_, a_ in enumerate(args):
        if isinstance(a_, tuple) and len(a_) == 2 and a_[0] == "__fresh_factory__":
            args[k_] = {
                "plain": lambda: (lambda shape: np.ones(shape) * 2),
                "named": lambda: (lambda shape, name=None: np.ones(shape) * (3 if name is not None else 1)),
                "varkw": lambda: (lambda shape, **kw: np.ones(shape) * (10 + len(kw))),
                "argidx": lambda: (lambda shape, arg_index=None: np.ones(shape) * (5 + (arg_index or 0))),
            }[a_[1]]()
    if item["adapter"]:
        f = adapters[item["adapter"]]
    else:
        f = getattr(einx, item["fname"])
    try:
        with contextlib.ExitStack() as st:
            for name in ctx:
                st.enter_context(einx.backend.get(name))
            try:
                return digest(f(item["desc"], *args, **item["kwargs"]))
            except Exception as e:  # noqa
                if escape:
                    raise
                return "E:" + type(e).__name__
    except Exception as e:  # noqa
        return "E:" + type(e).__name__


def run(spec, out):
    import warnings
    warnings.simplefilter("ignore")
    import einx
    import einx._src.tracer.graph as tg
    from einx._src.frontend.backend import registry
    from .. import hooks
    from ..fresh import Zygote

    rng = random.Random(spec["seed"])
    nprng = np.random.default_rng(spec["seed"])
    pool = build_pool(rng, nprng, spec["pool"], spec["maxlen"])

    adapters = make_adapters(einx)
    zy = Zygote(lambda q: perform(pool, adapters, q["i"], q["ctx"], q.get("escape", False)))  # fork per query: the reference oracle, slow here

    def perform_fresh(q):
        import einx as fresh_einx  # re-imported by the server: every module-level state of einx is new
        p2 = build_pool(random.Random(spec["seed"]), np.random.default_rng(spec["seed"]), spec["pool"], spec["maxlen"])  # fresh user callables
        return perform(p2, make_adapters(fresh_einx), q["i"], q["ctx"], q.get("escape", False))

    from ..fresh import ReimportServer
    srv = ReimportServer(perform_fresh)

    def adapt_unrelated(name):
        """History event: some unrelated function with a keyword-only option called `name` is adapted (and used once)."""
        ns = {}
        exec(f"def scaled(a, *, {name}=1.0):\n    return a * {name}\n", ns)
        ad = einx.numpy.adapt_numpylike_elementwise(ns["scaled"])
        try:
            ad("a b", np.ones((2, 3)), **{name: 2.0})
        except Exception:  # noqa
            pass

    hooks.install()
    import time as _time
    deadline = _time.time() + BUDGET_S[spec.get("tier", "quick")]
    try:
        for h in range(spec["histories"]):
            if _time.time() > deadline:
                out.count("histories_skipped_time_budget")
                continue
            length = rng.randint(40, 160)
            ctx = []
            prev_failed = False
            for step in range(length):
                if _time.time() > deadline:
                    out.count("history_cut_by_time_budget")
                    break
                # nesting changes
                r = rng.random()
                if r < 0.03 and len(ctx) < 2:
                    ctx = ctx + [rng.choice(["numpy.einsum", "numpy.numpylike"])]
                elif r < 0.09 and ctx:
                    ctx = ctx[:-1]
                if rng.random() < 0.05:
                    adapt_unrelated(rng.choice(["k", "n", "q"]))
                    out.count("history_event_adapt_unrelated")
                escape = rng.random() < 0.5 and bool(ctx)  # (without an active with-block the two variants are the same call)
                # pick a call; with some probability a neighbour of the previous one (confusable groups are adjacent)
                if step and rng.random() < 0.35:
                    idx = max(0, min(len(pool) - 1, idx + rng.choice([-2, -1, 1, 2])))
                else:
                    idx = rng.randrange(len(pool))
                item = pool[idx]
                hooks.window()
                q = {"i": idx, "ctx": ctx, "escape": escape}
                srv.submit(q)  # the pristine evaluation runs while the in-history call does
                audit = rng.random() < 0.08
                if audit:
                    zy.submit(q)
                got = perform(pool, adapters, idx, ctx, escape)
                miss = bool(hooks.captured)
                out.evaluation()
                out.count("cache_miss" if miss else "cache_hit_or_no_compile")
                out.count(f"label:{item['label']}")
                exp = srv.result()
                if audit:
                    ref = zy.result()
                    if "ok" in ref and "ok" in exp:
                        out.count("oracle_audits")
                        if ref["ok"] != exp["ok"]:
                            out.count("oracle_disagreements")
                            out.info("oracle_disagreement", {"call": item["label"], "desc": item["desc"], "fork": ref["ok"], "reimport": exp["ok"]})
                            exp = ref  # the fork-per-query oracle is the reference
                if escape and ctx and got.startswith("E:"):
                    out.count("with_block_left_by_exception")
                wit = {"label": item["label"], "fn": item["fname"] or "adapted", "desc": item["desc"], "kwargs": {k: repr(v)[:40] for k, v in item["kwargs"].items()}, "tensors": [type(t).__name__ + str(getattr(t, "shape", "")) + str(getattr(t, "dtype", "")) for t in item["tensors"]],
                       "nesting": ctx, "exception_leaves_with_block": escape, "history": h, "step": step, "previous_call_failed": prev_failed}
                if "ok" not in exp:
                    out.count("pristine_oracle_unavailable")
                    if "timeout" in exp:
                        out.count("pristine_timeouts")
                else:
                    if not miss or prev_failed:
                        out.distinct_key(f"{idx}|{ctx}|{'hit' if not miss else 'miss'}|{prev_failed}")
                    if exp["ok"] != got:
                        kind = "exception-class" if (got.startswith("E:") or exp["ok"].startswith("E:")) else ("graph-text" if got.startswith("S:") else "value")
                        out.violation({"kind": f"history-dependent-{kind}", "label": item["label"]}, {**wit, "in_history": got, "pristine": exp["ok"]},
                                      f"{wit['fn']}({item['desc']!r}, {wit['kwargs']}, tensors={wit['tensors']}) in nesting {ctx}: {got} after history, {exp['ok']} in a pristine interpreter")
                    else:
                        out.count("equals_pristine")
                        out.count("equals_pristine_hit" if not miss else "equals_pristine_miss")
                prev_failed = got.startswith("E:")
                # secondary monitors
                st = getattr(tg._dependon, "stack", [])
                if st:
                    out.violation({"kind": "tracer-dependency-stack-not-empty"}, wit, f"tracer dependency stack has {len(st)} entries after {wit['fn']}({item['desc']!r})")
                    tg._dependon.stack = []
                us = [b.name for b in registry.state.use_stack]
                if us:
                    out.violation({"kind": "use-stack-not-restored"}, {**wit, "use_stack": us}, f"registry use-stack is {us} outside any with-block after {wit['fn']}({item['desc']!r})")
                    registry.state.use_stack.clear()
            if h < 1:
                out.sample({"history_length": length, "pool_size": len(pool), "example_call": {"fn": pool[0]["fname"], "desc": pool[0]["desc"]}})
    finally:
        srv.close()
        zy.close()


def finalize(agg, tier, seed):
    c = agg.counters
    for k in ("equals_pristine_hit", "equals_pristine_miss"):
        if c.get(k, 0) < 15:
            agg.inconclusive.append(f"monitor counter {k} = {c.get(k, 0)}")
    for k in ("with_block_left_by_exception", "history_event_adapt_unrelated"):
        if c.get(k, 0) < 2:
            agg.inconclusive.append(f"history event {k} observed only {c.get(k, 0)} times")
    groups = {"conf-": 15, "factory": 4, "adapter-axisname": 4, "same-description": 10, "fresh-factory": 10}
    for prefix, minimum in groups.items():
        n = sum(v for k, v in c.items() if k.startswith("label:" + prefix))
        if n < minimum:
            agg.inconclusive.append(f"only {n} calls of the '{prefix}*' groups observed")
    if c.get("oracle_disagreements", 0) > 0:
        agg.inconclusive.append(f"the two pristine oracles disagreed on {c.get('oracle_disagreements')} of {c.get('oracle_audits')} audited queries (state outside einx's modules?)")
    if c.get("oracle_audits", 0) < 5:
        agg.inconclusive.append(f"only {c.get('oracle_audits', 0)} queries were audited against the fork-per-query oracle")
    if c.get("pristine_oracle_unavailable", 0) > 0.05 * max(1, c.get("evaluations", 0)):
        agg.inconclusive.append(f"pristine oracle unavailable for {c.get('pristine_oracle_unavailable')} calls")
    return {"labels": {k[6:]: int(v) for k, v in c.items() if k.startswith("label:")}}
