"""Synthetic IR graphs for C04: built with the public tracer constructors, compiled by the real
code generator, compared with the interpreter I including evaluation counts of instrumented
objects ("every value is computed once")."""
import collections

import numpy as np

COUNTS = collections.Counter()


class CountArr(np.ndarray):
    """ndarray that counts indexing / arithmetic / attribute reads done on it."""

    def __getitem__(self, k):
        COUNTS["getitem"] += 1
        return super().__getitem__(k)

    def __add__(self, o):
        COUNTS["add"] += 1
        return np.ndarray.__add__(self, o)

    def __mul__(self, o):
        COUNTS["mul"] += 1
        return np.ndarray.__mul__(self, o)

    @property
    def tag(self):
        COUNTS["getattr"] += 1
        return float(np.asarray(self).sum())


class Counting:
    def __init__(self, name, fn):
        self.name = name
        self.fn = fn

    def __call__(self, *a, **k):
        COUNTS["call:" + self.name] += 1
        return self.fn(*a, **k)

    def __repr__(self):
        return f"<{self.name}>"


def _put(a, i, v):
    a[i] = v


FUNCS = {
    "inc": Counting("inc", lambda a: a + 1),
    "mulf": Counting("mulf", lambda a, b: a * b),
    "neg": Counting("neg", lambda a: -a),
    "copy": Counting("copy", lambda a: a.copy()),
    "put": Counting("put", _put),
    "pair": Counting("pair", lambda a: (a + 1, a * 2)),
    "apply": Counting("apply", lambda fn, a: fn(a)),
    "twice": Counting("twice", lambda fn, a: fn(fn(a))),
    "total": Counting("total", lambda a, scale=1.0: float(np.asarray(a).sum()) * scale),
}


def build_graph(rng, depth=0, outer_pool=None, ancestors=()):
    """-> (Graph, n_inputs). Pool entries: (tracer, kind) with kind in {'arr', 'num', 'pair'}."""
    import einx._src.tracer as tracer

    P = tracer.signature.python
    consts = {}

    def C(name):
        if name not in consts:
            consts[name] = P.constant(FUNCS[name])
        return consts[name]

    n_in = rng.randint(1, 3) if depth == 0 else 1
    inputs = [P.Value(None) for _ in range(n_in)]
    pool = [(t, "arr") for t in inputs]
    if outer_pool:
        pool = pool + [p for p in outer_pool if rng.random() < 0.5]
    feats = set()
    nsteps = rng.randint(2, 30 if depth == 0 else 5)
    # tracers that were updated in place: later steps may only use the *result* of the update
    dead = set()

    def pick(kind):
        c = [t for t, k in pool if k == kind and id(t) not in dead]
        return rng.choice(c) if c else None

    for _ in range(nsteps):
        r = rng.random()
        a = pick("arr")
        if a is None:
            break
        if r < 0.18:
            pool.append((P.call(C("inc"), [a]), "arr"))
        elif r < 0.30:
            b = pick("arr")
            pool.append((P.call(C("mulf"), [a, b]), "arr"))
        elif r < 0.40:
            b = pick("arr")
            pool.append((P.add(a, b) if rng.random() < 0.5 else P.mul(a, b), "arr"))
            feats.add("operator")
        elif r < 0.50:
            if rng.random() < 0.5:
                pool.append((P.getitem(a, rng.randint(0, 3)), "num"))
            else:
                pool.append((P.getitem(a, slice(0, rng.choice([2, 4]), None)), "arr0"))
            feats.add("getitem")
        elif r < 0.56:
            pool.append((P.getattr(a, "tag"), "num"))
            feats.add("getattr")
        elif r < 0.64:
            pr = P.call(C("pair"), [a])
            pool.append((pr, "pair"))
            pool.append((P.getitem(pr, 0), "arr"))
            if rng.random() < 0.6:
                pool.append((P.getitem(pr, 1), "arr"))
            feats.add("tuple-result")
        elif r < 0.72:
            # in-place on a fresh copy (readers of the copy are ancestors of the update by construction); inside a
            # nested graph the copy must be created per invocation, i.e. depend on the nested graph's own input
            if depth > 0 and not tracer.depends_on(a, inputs[0]):
                continue
            cp = P.call(C("copy"), [a])
            num = pick("num")
            val = num if num is not None else 7.0
            if rng.random() < 0.5:
                upd = P.call_inplace(cp, C("put"), [cp, rng.randint(0, 3), val])
                feats.add("call-inplace")
            else:
                k = rng.randint(0, 3)
                upd = rng.choice([P.setitem, P.additem, P.subtractitem])(cp, k, val)
                feats.add("update-item")
            dead.add(id(cp))
            pool.append((upd, "arr"))
        elif r < 0.78:
            cond = P.equal(P.call(P.builtins.len, [a]), 4)
            pool.append((P.assert_(a, cond, "length"), "arr"))
            feats.add("assert")
        elif r < 0.84:
            num = pick("num")
            if num is not None:
                pool.append((P.call(C("total"), [a], {"scale": num}), "num"))
                feats.add("kwargs")
        elif r < 0.92 and depth < 2:
            # nested graph passed to a higher-order constant; closes over outer values
            inner, _, ifeats = build_graph(rng, depth + 1, outer_pool=[p for p in pool if p[1] == "arr" and id(p[0]) not in dead], ancestors=tuple(ancestors) + (tuple(inputs),))
            ho = C(rng.choice(["apply", "twice"]))
            pool.append((P.call(ho, [inner, a]), "arr"))
            feats.add("nested-graph")
            feats |= ifeats
        else:
            imp = P.import_("numpy", as_="np") if rng.random() < 0.5 else P.import_("abs", from_="operator")
            if rng.random() < 0.5:
                pool.append((P.call(P.getattr(P.import_("numpy", as_="np"), "negative"), [a]), "arr"))
            else:
                pool.append((P.call(P.import_("neg", from_="operator"), [a]), "arr"))
            feats.add("import")
    # 'arr0' (slices) are arrays of another length: usable as outputs only
    outs = [t for t, k in pool if id(t) not in dead and k in ("arr", "num", "arr0", "pair") and not any(t is i for i in inputs)]
    if depth >= 2:
        # a value built here that does not depend on this graph's own input but on the inputs of two different enclosing graphs
        own_ids = {id(t) for t, _ in pool} - {id(t) for t, _ in (outer_pool or [])}
        for t, _ in pool:
            if id(t) in own_ids and t.origin is not None and not tracer.depends_on(t, inputs[0]):
                levels = sum(1 for anc in ancestors if any(tracer.depends_on(t, a) for a in anc))
                if levels >= 2:
                    feats.add("value-spanning-two-outer-scopes")
    if depth > 0:
        # a nested function returns one array that depends on its own input (see DESIGN.md on defect #15)
        cands = [t for t, k in pool if k == "arr" and id(t) not in dead and tracer.depends_on(t, inputs[0])]
        out = rng.choice(cands) if cands else P.call(C("inc"), [inputs[0]])
        outer_only = [t for t, k in (outer_pool or []) if k == "arr" and t.origin is not None]
        if outer_only and rng.random() < 0.04:
            out = rng.choice(outer_only)  # the nested function returns a value of the enclosing scope
            feats.add("nested-graph-outer-output")
        return tracer.Graph(inputs, out, name=None), n_in, feats
    if not outs:
        outs = [P.call(C("inc"), [inputs[0]])]
    k = rng.random()
    if k < 0.4:
        output = rng.choice(outs)
    elif k < 0.7:
        output = tuple(rng.choice(outs) for _ in range(rng.randint(1, 3)))
        feats.add("tuple-output")
    elif k < 0.85:
        output = [rng.choice(outs) for _ in range(rng.randint(1, 3))]
        feats.add("list-output")
    else:
        output = {f"k{i}": rng.choice(outs) for i in range(rng.randint(1, 3))}
        feats.add("dict-output")
    return tracer.Graph(inputs, output, name="op"), n_in, feats


def run_synthetic(spec, out, rng):
    import einx._src.tracer.compiler.python as pyc
    from ..hooks import _orig
    from ..ref.graph import Interp
    from ..capture import same_value
    from .c04 import abstract_text

    import re
    compile_ = _orig.get("compile", pyc.compile)
    ring = []  # earlier compilations: (fn, n_in, result then)
    for i in range(spec["nsyn"]):
        try:
            graph, n_in, feats = build_graph(rng)
        except Exception as e:  # harness problem while building: never a verdict
            out.count("synthetic_build_failed")
            continue
        out.evaluation()
        out.count("synthetic_graphs")
        for f in feats:
            out.count(f"synfeat:{f}")
        risk = "nested-graph-outer-output" if "nested-graph-outer-output" in feats else ("nested-graph-value-spanning-two-outer-scopes" if "value-spanning-two-outer-scopes" in feats else ("nested-graph" if "nested-graph" in feats else ""))
        try:
            fn, text = compile_(graph, return_code=True)
        except RecursionError as e:
            out.violation({"kind": "codegen-recursion", "risk": risk}, {"feats": sorted(feats)}, "RecursionError in the code generator on a synthetic graph")
            continue
        except Exception as e:
            out.violation({"kind": "codegen-failed", "exc": type(e).__name__, "risk": risk}, {"feats": sorted(feats), "error": str(e)[:600]}, f"code generation failed on a synthetic graph: {type(e).__name__}: {str(e)[:200]}")
            continue

        # the header announces exactly the constants the body uses, and the function's namespace binds them
        from .c04 import free_names
        used = free_names(text)
        commented = set(re.findall(r"[A-Za-z_]\w*", "\n".join(l for l in text.splitlines() if l.lstrip().startswith("#"))))
        if not used <= commented or any(c not in getattr(fn, "__globals__", {}) for c in used):
            out.violation({"kind": "header-constants-differ-from-body"}, {"text": text, "body": sorted(used)}, f"synthetic graph: the body uses constants {sorted(used - commented)} that no header comment lists (or that are unbound)")
            continue

        def inputs(n_in=n_in):
            return [(np.arange(4.0) + 10 * k + 1).view(CountArr) for k in range(n_in)]

        # an earlier compiled function, called again after this compilation, still returns what it returned then
        if ring:
            fn0, n0, val0 = ring[rng.randrange(len(ring))]
            try:
                again = ("ok", fn0(*[(np.arange(4.0) + 10 * k + 1).view(CountArr) for k in range(n0)]))
            except Exception as e:  # noqa
                again = ("exc", type(e).__name__)
            if again[0] != "ok" or not same_value(again[1], val0):
                out.violation({"kind": "compiled-function-changed-by-later-compilation"}, {"text_of_later": text}, f"synthetic graph: a function compiled earlier behaves differently after a later compilation ({again[0]})")
            else:
                out.count("synthetic_earlier_function_unchanged")

        a1, a2 = inputs(), inputs()
        COUNTS.clear()
        try:
            r1 = ("ok", fn(*a1))
        except Exception as e:
            r1 = ("exc", type(e).__name__)
        c1 = dict(COUNTS)
        COUNTS.clear()
        try:
            r2 = ("ok", Interp(graph)(*a2))
        except Exception as e:
            r2 = ("exc", type(e).__name__)
        c2 = dict(COUNTS)
        if i < 1:
            out.sample({"synthetic_text": text, "features": sorted(feats), "counts": c1})
        wit = {"text": text, "feats": sorted(feats)}
        if r1[0] != r2[0] or (r1[0] == "exc" and r1[1] != r2[1]):
            out.violation({"kind": "synthetic-outcome-differs", "compiled": r1[1] if r1[0] == "exc" else "ok", "interp": r2[1] if r2[0] == "exc" else "ok", "risk": risk}, wit, f"synthetic graph: compiled -> {r1[0]}:{r1[1] if r1[0]=='exc' else ''}, interpreter -> {r2[0]}:{r2[1] if r2[0]=='exc' else ''}")
            continue
        if r1[0] == "ok" and not same_value(r1[1], r2[1]):
            out.violation({"kind": "synthetic-value-differs", "risk": risk}, wit, "synthetic graph: compiled code and node-by-node interpretation return different values")
            continue
        if any(not np.array_equal(np.asarray(u), np.asarray(v)) for u, v in zip(a1, a2)):
            out.violation({"kind": "synthetic-side-effect-differs", "risk": risk}, wit, "synthetic graph: arguments differ after the call")
            continue
        if c1 != c2:
            diff = sorted(k for k in set(c1) | set(c2) if c1.get(k, 0) != c2.get(k, 0))
            kinds = sorted({k.split(":")[0] for k in diff})
            out.violation({"kind": "value-not-computed-once", "ops": kinds, "more_in": "compiled" if all(c1.get(k, 0) >= c2.get(k, 0) for k in diff) else "mixed"}, {**wit, "compiled_counts": c1, "interp_counts": c2},
                          f"synthetic graph: evaluation counts differ (compiled {dict((k, c1.get(k, 0)) for k in diff)} vs interpreter {dict((k, c2.get(k, 0)) for k in diff)})")
            continue
        out.count("synthetic_checked")
        if r1[0] == "ok" and "nested-graph" not in feats:
            ring.append((fn, n_in, r1[1]))
            if len(ring) > 12:
                ring.pop(rng.randrange(len(ring)))
        if text.count("\n") >= 3:
            out.distinct_key("syn|" + abstract_text(text))
