"""C10 - concurrent use from several threads behaves like some serial order.

2-3 thread programs of atomic API actions run on the real einx under the controlled scheduler T
(sys.monitoring yield points at every line of einx's shared-state files and every function entry
elsewhere in einx, cooperative lock shim). Oracle: the set of (outcome vector, final registry
state) pairs produced by running the same actions sequentially on the real code in every
interleaving that respects per-thread order. The observed pair must be a member.
"""
import collections
import itertools
import random
import sys
import types

ID = "C10"
LEVEL = "exploration"
RULE = (
    "programs of 2-3 threads x 1-4 atomic actions (einx call with/without backend argument - 9 built-in calls incl. two signatures of one op, an adapted function with two signatures, a call with a tensor factory, solve_axes, matches, creation and use of a new adapter; enter/exit of a 'with backend' block, einx.backend.get, eager registration of a "
    "synthetic backend, first use of a lazily registered backend after its module appears) on the real global registry; schedules: no preemption, PCT-style 1-3 pre-drawn "
    "preemption points, random switching, preemption at source lines executed at most twice in the run, (thorough) every single preemption point (a sample of 1500 where a program has more); warm and cold (compile caches cleared) variants; "
    "distinct = distinct switch sequences (thread, yield index); non-trivial = schedules with at least one preemption"
)
ASSUMPTIONS = [
    "programs are restricted to those whose every serial order is failure-free (all 'with' users share one backend object or only one thread uses 'with')",
    "yield points exist only in einx's own Python code; interleavings inside numpy/sympy C code are not explored",
    "a hung schedule (watchdog) is inconclusive, a scheduler-detected lock cycle is a violation",
]
TIMEOUT = {"quick": 900, "thorough": 7200}


def PRE_IMPORT(spec):
    from .. import sched
    sched.install_lock_shim()


def shards(tier, seed, scale):
    n = 16
    return [{"programs": 3 if tier == "quick" else 6, "schedules": int((260 if tier == "quick" else 700) * scale), "systematic": tier == "thorough"} for _ in range(n)]


# ------------------------------------------------------------------ programs

BACKEND_OPS = ["sum", "min", "add", "multiply", "dot", "id", "sum_t", "get_at", "softmax", "dot2"]
OPS = BACKEND_OPS + ["adapted", "adapted_t", "factory", "factory_ai0", "factory_ai1", "solve_axes", "matches", "adapt_new"]


def fixed_programs():
    E = "numpy.einsum"
    return [
        {"name": "with-vs-lookup", "cold": False, "threads": [[("enter", E), ("call", "min", None), ("get", None), ("exit", E)], [("call", "sum", None), ("get", None)]]},
        {"name": "with-vs-with-same-backend", "cold": False, "threads": [[("enter", E), ("call", "sum", None), ("exit", E)], [("enter", E), ("call", "min", None), ("exit", E)]]},
        {"name": "register-vs-call", "cold": False, "threads": [[("register", "syn1"), ("get", "syn1")], [("call", "sum", None), ("register", "syn2")], [("get", None)]]},
        {"name": "lazy-import-both", "cold": False, "threads": [[("lazy", "vfmodA", "lazyA")], [("lazy", "vfmodB", "lazyB")], [("call", "add", None)]]},
        {"name": "cold-compile-same", "cold": True, "threads": [[("call", "sum", None)], [("call", "sum", None)], [("call", "min", "numpy.numpylike")]]},
        {"name": "cold-with-vs-compile", "cold": True, "threads": [[("enter", E), ("call", "sum", None), ("exit", E)], [("call", "sum", None), ("get", None)]]},
        {"name": "with-vs-register", "cold": False, "threads": [[("enter", E), ("get", None), ("exit", E)], [("register", "syn3")], [("call", "multiply", None)]]},
        {"name": "byname-vs-with", "cold": False, "threads": [[("enter", "numpy.numpylike"), ("call", "dot", None), ("exit", "numpy.numpylike")], [("call", "sum", E), ("get", "numpy")]]},
        {"name": "cold-einsum-two-descriptions", "cold": True, "threads": [[("call", "dot", None)], [("call", "dot2", None)], [("call", "multiply", "numpy.einsum")]]},
        {"name": "cold-einsum-vs-einsum-backend", "cold": True, "threads": [[("call", "dot2", None), ("call", "sum", "numpy.einsum")], [("call", "id", "numpy.einsum"), ("call", "dot", "numpy.einsum")]]},
        {"name": "cold-factories-at-two-positions", "cold": True, "threads": [[("call", "factory_ai0", None)], [("call", "factory_ai1", None)]]},
        {"name": "cold-factories-and-plain-add", "cold": True, "threads": [[("call", "factory_ai1", None), ("call", "add", None)], [("call", "factory_ai0", None)], [("call", "factory", None)]]},
        {"name": "cold-two-signatures", "cold": True, "threads": [[("call", "sum", None), ("call", "sum_t", None)], [("call", "sum_t", None), ("call", "sum", None)]]},
        {"name": "cold-adapter-two-signatures", "cold": True, "threads": [[("call", "adapted", None)], [("call", "adapted_t", None)], [("call", "factory", None)]]},
        {"name": "cold-factory-vs-solve", "cold": True, "threads": [[("call", "factory", None), ("call", "solve_axes", None)], [("call", "factory", None), ("call", "matches", None)]]},
        {"name": "adapt-new-vs-adapted", "cold": True, "threads": [[("call", "adapt_new", None), ("call", "adapted", None)], [("call", "adapted_t", None), ("call", "adapt_new", None)]]},
    ]


def random_program(rng):
    E = rng.choice(["numpy.einsum", "numpy.numpylike"])
    nthreads = rng.choice([2, 2, 3])
    with_threads = set(rng.sample(range(nthreads), rng.choice([0, 1, 1, 2])))
    threads = []
    nsyn = 0
    for t in range(nthreads):
        acts = []
        n = rng.randint(1, 3)
        inner = []
        for _ in range(n):
            k = rng.random()
            if k < 0.45:
                op = rng.choice(OPS)
                inner.append(("call", op, rng.choice([None, None, "numpy", "numpy.einsum", "numpy.numpylike"]) if op in BACKEND_OPS else None))
            elif k < 0.7:
                inner.append(("get", rng.choice([None, None, "numpy", "numpy.einsum"])))
            elif k < 0.85:
                nsyn += 1
                inner.append(("register", f"rsyn{t}_{nsyn}"))
            else:
                nsyn += 1
                inner.append(("lazy", f"vfrmod{t}_{nsyn}", f"rlazy{t}_{nsyn}"))
        if t in with_threads:
            acts = [("enter", E)] + inner[:2] + [("exit", E)]
        else:
            acts = inner
        threads.append(acts[:4])
    return {"name": "random", "cold": rng.random() < 0.3, "threads": threads}


# ------------------------------------------------------------------ execution


class World:
    def __init__(self):
        import numpy as np
        import einx
        from einx._src.frontend import backend as B

        self.np = np
        self.einx = einx
        self.B = B
        self.reg = B.registry
        self.x = np.arange(6.0).reshape(2, 3)
        self.y = np.arange(3.0)
        self.xt = np.arange(6.0).reshape(3, 2) * 2 + 1
        self.idx = np.array([1, 0, 1])
        self.y2 = np.arange(12.0).reshape(3, 4) - 5
        self.adapter = einx.numpy.adapt_numpylike_reduce(lambda t, axis: np.sum(t * t, axis=axis))
        # warm everything that a program may touch so that 'warm' really is warm
        for b in (None, "numpy", "numpy.einsum", "numpy.numpylike"):
            for op in OPS:
                if b is not None and op not in BACKEND_OPS:
                    continue
                try:
                    self.call(op, b)
                except Exception:
                    pass
        self.saved = self.reg.state
        self.modules = set()

    def call(self, op, backend):
        einx, x, y = self.einx, self.x, self.y
        kw = {} if backend is None else {"backend": backend}
        if op == "sum":
            return einx.sum("a [b]", x, **kw)
        if op == "min":
            return einx.min("a [b]", x, **kw)
        if op == "add":
            return einx.add("a b, b", x, y, **kw)
        if op == "multiply":
            return einx.multiply("a b, b -> b a", x, y, **kw)
        if op == "dot":
            return einx.dot("a [b], [b] -> a", x, y, **kw)
        if op == "id":
            return einx.id("a b -> (b a)", x, **kw)
        if op == "sum_t":  # the same operation and description as "sum" with another shape: a second cache entry
            return einx.sum("a [b]", self.xt, **kw)
        if op == "get_at":
            return einx.get_at("a [b], p -> a p", x, self.idx, **kw)
        if op == "dot2":  # shares axis names with the other calls, in other positions (einsum letter assignment differs)
            return einx.dot("b [a], [a] c -> c b", x, self.y2, **kw)
        if op == "softmax":
            return einx.softmax("a [b]", x, **kw)
        np = self.np
        if op == "adapted":
            return self.adapter("a [b]", x)
        if op == "adapted_t":
            return self.adapter("a [b]", self.xt)
        if op == "factory":
            return einx.add("a b, b", x, lambda shape: np.full(shape, 3.0))
        if op in ("factory_ai0", "factory_ai1"):
            # a factory that declares arg_index (and name): what it returns depends on the position it was given at
            def f_ai(shape, arg_index=None, name=None):
                return np.full(shape, 10.0 * (arg_index if arg_index is not None else -1) + len(name or ""))
            return einx.add("b, a b", f_ai, x) if op == "factory_ai0" else einx.add("a b, b", x, f_ai)
        if op == "solve_axes":
            return sorted((k, int(v)) for k, v in einx.solve_axes("(a c) b", x, c=2).items())
        if op == "matches":
            return bool(einx.matches("a (b c)", x, c=3)), bool(einx.matches("a (b c)", x, c=2))
        if op == "adapt_new":
            return einx.numpy.adapt_numpylike_elementwise(lambda u, v: u - v)("a b, b", x, y)
        raise KeyError(op)

    def caches(self):
        out = []
        for op in (self.einx.sum, self.einx.min, self.einx.add, self.einx.multiply, self.einx.dot, self.einx.id, self.einx.get_at, self.einx.softmax, self.adapter):  # (dot2 shares einx.dot's cache)
            d = dict(zip(op.__code__.co_freevars, [c.cell_contents for c in op.__closure__]))
            out.append(d["construct_graph_with_cache"].__wrapped__)
        return out

    def reset(self, program):
        self.reg.state = self.saved
        for m in list(self.modules):
            sys.modules.pop(m, None)
        self.modules.clear()
        if program["cold"]:
            for c in self.caches():
                c.cache_clear()
        # lazy registrations of this program
        for acts in program["threads"]:
            for a in acts:
                if a[0] == "lazy":
                    self.reg.register_on_import(a[1], a[2], self._factory(a[2]))
        self.base = self.reg.state

    def _factory(self, name):
        B, np = self.B, self.np

        def f():
            return B.Backend(ops={}, name=name, priority=0, optimizations=[], compiler=None, is_supported_tensor=lambda t: False, get_shape=lambda t: ())
        return f

    def do(self, a):
        """Execute one atomic action on the real code -> outcome (hashable)."""
        from ..util import digest_value
        einx = self.einx
        try:
            if a[0] == "call":
                return ("ok", digest_value(self.call(a[1], a[2])))
            if a[0] == "enter":
                einx.backend.get(a[1]).__enter__()
                return ("ok", "entered")
            if a[0] == "exit":
                einx.backend.get(a[1]).__exit__(None, None, None)
                return ("ok", "exited")
            if a[0] == "get":
                return ("ok", einx.backend.get(a[1], [self.x]).name)
            if a[0] == "register":
                self.reg.register(self._factory(a[1])())
                return ("ok", "registered")
            if a[0] == "lazy":
                self.modules.add(a[1])
                sys.modules[a[1]] = types.ModuleType(a[1])
                return ("ok", einx.backend.get(a[2]).name)
        except BaseException as e:  # noqa
            return ("exc", type(e).__name__)
        raise KeyError(a)

    def final_state(self):
        st = self.reg.state
        return (tuple(b.name for b in st.use_stack), tuple(sorted(st.name_to_backend.keys())))


def serial_orders(lengths):
    """All interleavings of per-thread action indices respecting thread order."""
    total = sum(lengths)

    def rec(pos, acc):
        if len(acc) == total:
            yield list(acc)
            return
        for t, n in enumerate(lengths):
            if pos[t] < n:
                pos[t] += 1
                acc.append(t)
                yield from rec(pos, acc)
                acc.pop()
                pos[t] -= 1

    yield from rec([0] * len(lengths), [])


def allowed_set(world, program, cap=2000):
    lengths = [len(t) for t in program["threads"]]
    allowed = set()
    n = 0
    failure_free = True
    for order in serial_orders(lengths):
        n += 1
        if n > cap:
            break
        world.reset(program)
        pos = [0] * len(lengths)
        outcome = [[None] * k for k in lengths]
        for t in order:
            r = world.do(program["threads"][t][pos[t]])
            outcome[t][pos[t]] = r
            if r[0] == "exc" and r[1] != "OperationNotSupportedError":
                failure_free = False
            pos[t] += 1
        allowed.add((tuple(tuple(o) for o in outcome), world.final_state()))
    return allowed, n, failure_free


def run_schedule(world, program, sc):
    from .. import sched as T
    world.reset(program)
    outcomes = [[None] * len(t) for t in program["threads"]]

    def body(ti):
        def f():
            for k, a in enumerate(program["threads"][ti]):
                outcomes[ti][k] = world.do(a)
        return f

    hung = T.run_threads(sc, {f"T{ti}": body(ti) for ti in range(len(program["threads"]))}, timeout=60)
    return (tuple(tuple(o) for o in outcomes), world.final_state()), hung


def _cooperative(lock, depth=0):
    """The registry's lock is the cooperative shim, or a composite (e.g. a reader/writer lock) all of whose primitive locks are."""
    if type(lock).__name__ == "CoopLock":
        return True
    if depth >= 2 or not hasattr(lock, "__dict__"):
        return False
    prims = [v for v in vars(lock).values() if "lock" in type(v).__name__.lower() or hasattr(v, "acquire")]
    return bool(prims) and all(_cooperative(v, depth + 1) for v in prims)


def run(spec, out):
    from .. import sched as T

    rng = random.Random(spec["seed"])
    world = World()
    nline, nstart = T.instrument()
    out.count("instrumented_line_codeobjects", nline)
    out.count("instrumented_start_codeobjects", nstart)
    if not _cooperative(world.reg.use_lock):
        out.inconclusive("registry.use_lock is not built from the cooperative shim (lock shim not installed before einx import)")
        return
    fixed = fixed_programs()
    progs = []
    # every shard takes some fixed programs (round robin) and some random ones
    for k in range(spec["programs"]):
        if k % 2 == 0:
            progs.append(fixed[(spec["shard"] + k // 2 * 7) % len(fixed)])  # (7 is coprime to the number of fixed programs: every program is taken by two shards)
        else:
            progs.append(random_program(rng))
    for program in progs:
        allowed, norders, failure_free = allowed_set(world, program)
        out.count("programs")
        out.count("serial_orders", norders)
        out.count("distinct_serial_outcomes", len(allowed))
        if not failure_free:
            out.count("programs_skipped_not_failure_free")
            continue
        tids = [f"T{i}" for i in range(len(program["threads"]))]
        # measuring run without preemption: number of yield points and those inside backend.py
        sc0 = T.Sched(0, tids)
        sc0.trace = []
        obs, hung = run_schedule(world, program, sc0)
        N = max(sc0.count, 10)
        # yield points at source lines that are executed only once or twice in the whole run (e.g. "exec the generated code" / "look the function
        # up"): singular windows that uniform sampling over thousands of yield points rarely hits
        loc_count = collections.Counter(sc0.trace)
        rare = [i + 1 for i, loc in enumerate(sc0.trace) if loc_count[loc] <= 2 and loc[1]] or [1]
        out.count("rare_yield_points", len(rare))
        out.sample({"program": program, "serial_orders": norders, "distinct_serial_outcomes": len(allowed), "yield_points_no_preemption": sc0.count, "yield_points_by_file": dict(sc0.files.most_common(6))})
        plans = []
        for s in range(spec["schedules"]):
            mode = rng.random()
            if mode < 0.6:
                d = rng.choice([1, 2, 2, 3])
                plans.append(("pct", set(rng.randrange(1, N + 1) for _ in range(d)), 0.0))
            elif mode < 0.8:
                plans.append(("random", set(), rng.choice([0.01, 0.03, 0.1, 0.3])))
            elif mode < 0.9:
                plans.append(("rare-line", set(rng.choice(rare) + rng.choice([0, 0, 1]) for _ in range(rng.choice([1, 1, 2]))), 0.0))
            else:
                plans.append(("first", {1, rng.randrange(1, N + 1)}, 0.0))
        if spec["systematic"]:
            # every single preemption point; programs with very many yield points (cold compilations under LINE events) get an evenly drawn
            # sample of 1500 of them, so that a shard stays within its time limit
            points = range(1, N + 1) if N <= 1500 else sorted(rng.sample(range(1, N + 1), 1500))
            out.count("systematic_points", len(points))
            out.count("systematic_points_available", N)
            for i in points:
                plans.append(("single", {i}, 0.0))
        for si, (mode, pts, prob) in enumerate(plans):
            sc = T.Sched(rng.randrange(1 << 30), tids, switch_points=pts, switch_prob=prob)
            obs, hung = run_schedule(world, program, sc)
            out.evaluation()
            out.count(f"mode:{mode}")
            out.count("yield_points", sc.count)
            for f, c in sc.files.items():
                out.count(f"yield_file:{f}", c)
            if sc.switches:
                out.count("schedules_with_preemption")
                out.distinct_key(f"{program['name']}|{program['threads']}|{sc.signature()}")
                out.set_add("interleavings", f"{program['threads']}|{sc.signature()}")
            if hung:
                if sc.deadlock:
                    out.violation({"kind": "deadlock"}, {"program": program, "switches": sc.switches[:40]}, f"lock cycle under schedule {sc.switches[:6]}")
                else:
                    out.inconclusive(f"schedule hung (watchdog) in program {program['name']}")
                return
            if obs not in allowed:
                # classify by what differs from every allowed pair
                finals = {a[1] for a in allowed}
                kind = "final-state-not-serial" if obs[1] not in finals else "outcome-not-serial"
                excs = sorted({o[1] for t in obs[0] for o in t if o and o[0] == "exc"})
                out.violation(
                    {"kind": kind, "exceptions": excs, "stack_left": bool(obs[1][0])},
                    {"program": program, "mode": mode, "switches": sc.switches[:40], "observed": obs, "allowed_examples": sorted(allowed, key=str)[:3]},
                    f"program {program['name']} {program['threads']}: observed {obs} is not the result of any of {norders} serial orders; switches {[(c, a, b, f, l) for c, a, b, f, l in sc.switches[:4]]}",
                )
            else:
                out.count("member_of_serial_set")
    world.reset({"threads": [], "cold": False})


def finalize(agg, tier, seed):
    c = agg.counters
    if c.get("schedules_with_preemption", 0) < 100:
        agg.inconclusive.append(f"only {c.get('schedules_with_preemption', 0)} schedules had a preemption")
    if c.get("yield_file:backend.py", 0) == 0:
        agg.inconclusive.append("no yield point observed in frontend/backend.py")
    return {"yield_points_by_file": {k[11:]: int(v) for k, v in c.items() if k.startswith("yield_file:")}, "distinct_interleavings": len(agg.sets.get("interleavings", ()))}
