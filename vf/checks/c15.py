"""C15 - adapted user functions follow loop-notation semantics; their outputs are checked.

Instrumented pure-numpy functions are wrapped with einx.numpy.adapt_numpylike_reduce /
adapt_numpylike_elementwise and called with G's reduce / element-wise descriptions. Oracles: the
loop reference R with the same Python function as elementary operation; the recorded arguments
(shape, axis tuple, every keyword with value and type); misbehaving functions must make the
call fail; option names used as axis names must be rejected with SemanticError.
"""
import random

import numpy as np

ID = "C15"
LEVEL = "exploration"
RULE = (
    "G's reduce and element-wise grammars (flatten, ellipsis, unit axes, diagonal, broadcast) with 3 reduce-style and 3 element-wise user functions, with and without keyword-only "
    "options; every call repeated with confusable option values (2, 2.0, True, np.int64(2), np.float32(2)) in random order; misbehaving functions (wrong type / rank / shape / tuple); "
    "option name used as axis name; distinct by (adapter, function, skeleton); non-trivial if the description has a bracket inside a flatten, an ellipsis, a broadcast or an option"
)
ASSUMPTIONS = ["adapt_with_vmap is not reachable (no framework with vmap installed)", "user functions are separable reductions / scalar functions, so the loop reference with the same function is the value oracle"]
TIMEOUT = {"quick": 900, "thorough": 7200}


def shards(tier, seed, scale):
    n = 16 if tier == "quick" else 64
    return [{"n": int((110 if tier == "quick" else 900) * scale), "maxlen": 4} for _ in range(n)]


CONFUSABLE = [2, 2.0, True, np.int64(2), np.float32(2.0), 3, 3.0, np.float32(0.1)]


def run(spec, out):
    import einx
    from ..gen import cases as G
    from .. import exec as X
    from ..ref import loops as R
    from ..gen.expr import xleaves
    from ..util import exc_site
    from ..capture import same_value
    from ..argsan import Guard

    rng = random.Random(spec["seed"])
    nprng = np.random.default_rng(spec["seed"])
    calls = []  # recorded calls of the instrumented user functions

    # ---- user functions
    def r_sumsq(x, axis):
        calls.append(("r_sumsq", np.shape(x), axis, {}))
        return 0.5 * np.sum(np.asarray(x, dtype=np.float64) ** 2, axis=axis)

    def r_scaledmax(x, axis, *, scale=1):
        calls.append(("r_scaledmax", np.shape(x), axis, {"scale": scale}))
        return np.max(x, axis=axis) * scale

    def r_powsum(x, axis, *, power=2, offset=0):
        calls.append(("r_powsum", np.shape(x), axis, {"power": power, "offset": offset}))
        return np.sum(np.asarray(x, dtype=np.float64) ** power, axis=axis) + offset

    def e_lin(*xs):
        calls.append(("e_lin", [np.shape(x) for x in xs], None, {}))
        r = 0
        for i, x in enumerate(xs):
            r = r + (i + 1) * np.asarray(x, dtype=np.float64)
        return r

    def e_scaled(a, b, *, scale=1):
        calls.append(("e_scaled", [np.shape(a), np.shape(b)], None, {"scale": scale}))
        return (np.asarray(a, dtype=np.float64) - b) * scale

    def e_clip(a, *, lo=-1, hi=2):
        calls.append(("e_clip", [np.shape(a)], None, {"lo": lo, "hi": hi}))
        return np.minimum(np.maximum(a, lo), hi)

    def r_tagged(x, axis, *, tag="default-tag"):
        calls.append(("r_tagged", np.shape(x), axis, {"tag": tag}))
        return np.min(x, axis=axis)

    REDUCE = [(r_sumsq, []), (r_scaledmax, ["scale"]), (r_powsum, ["power", "offset"]), (r_tagged, ["tag"])]
    ELEM = [(e_lin, [], None), (e_scaled, ["scale"], 2), (e_clip, ["lo", "hi"], 1)]
    adapted = {}

    def adapt(kind, fn):
        key = (kind, fn.__name__)
        if key not in adapted:
            adapted[key] = (einx.numpy.adapt_numpylike_reduce if kind == "reduce" else einx.numpy.adapt_numpylike_elementwise)(fn)
        return adapted[key]

    for it in range(spec["n"]):
        kind = rng.choice(["reduce", "elementwise"])
        if kind == "reduce":
            fn, optnames = rng.choice(REDUCE)
            case = G.generate(rng, nprng, family="reduce", P={"maxlen": spec["maxlen"]}, op="sum")
            if case.opts:
                continue  # keepdims belongs to the built-in reductions
        else:
            fn, optnames, arity = rng.choice(ELEM)
            case = None
            for _ in range(30):
                c = G.generate(rng, nprng, family="elementwise", P={"maxlen": spec["maxlen"]}, op="add")
                if arity is None or len(c.inputs) == arity:
                    case = c
                    break
            if case is None:
                continue
        if any(n in case.var_sizes for n in ("scale", "power", "offset", "lo", "hi", "axis")):
            continue
        case.tensors = [np.asarray(t, dtype=np.float64) for t in case.tensors]
        ein = adapt(kind, fn)
        desc = case.desc()
        cj = {**case.to_json(), "adapter": kind, "function": fn.__name__}
        nontrivial = bool(case.feats & {"bracket-in-flatten", "ellipsis", "broadcast", "flatten", "diagonal", "squeeze"}) or bool(optnames)
        if nontrivial:
            out.distinct_key(f"{kind}|{fn.__name__}|{case.skeleton()}")
        if it < 2:
            out.sample(cj)
        # option values: a sequence of confusable values, each checked for value AND type
        seqs = [{}]
        if optnames == ["tag"]:
            # non-numeric option values: strings, None, containers, arrays
            seqs = [{"tag": v} for v in rng.sample(["abc", None, (1, 2), [1, 2], np.array([1.0, 2.0]), {"k": 1}, "", 0], 4)]
        elif optnames:
            vals = rng.sample(CONFUSABLE, 4)
            seqs = [{optnames[0]: v} for v in vals]
            if len(optnames) > 1:
                seqs.append({optnames[0]: vals[0], optnames[1]: rng.choice(CONFUSABLE)})
        for opts in seqs:
            out.evaluation()
            calls.clear()
            tensors = [np.array(t, copy=True) for t in case.tensors]
            kw = dict(case.kwargs)
            with Guard(tensors, kw) as g:
                try:
                    r = ("ok", ein(desc, *tensors, **kw, **opts))
                except Exception as e:
                    r = ("exc", e)
            for pos, what in g.changed:
                out.violation({"kind": "argument-modified", "what": what}, {**cj, "pos": pos}, f"adapted {fn.__name__}({desc!r}) modified argument {pos}")
            if r[0] == "exc":
                e = r[1]
                out.violation({"kind": "adapted-call-rejected", "adapter": kind, "exc": type(e).__name__, "risk": G.risk(case), **exc_site(e)},
                              {**cj, "opts": {k: repr(v) for k, v in opts.items()}, "message": str(e)[:300]}, f"adapted {fn.__name__}({desc!r}, shapes={case.in_shapes}, {kw}, {opts}): {type(e).__name__}: {str(e)[:150]}")
                break
            # recorded call(s): exactly one invocation of the user function per execution
            if len(calls) != 1:
                out.violation({"kind": "user-function-call-count", "count": min(len(calls), 3)}, cj, f"user function invoked {len(calls)} times for one execution")
                continue
            name, shapes, axis, kwseen = calls[0]
            # keyword-only options forwarded verbatim (value and type); axis sizes never leak
            exp_kw = {k: opts.get(k, None) for k in optnames if k in opts}
            for k, v in exp_kw.items():
                got = kwseen.get(k)
                same = type(got) is type(v) and (np.array_equal(got, v) if isinstance(v, np.ndarray) else got == v)
                pk = "numpy-scalar" if isinstance(v, np.generic) else ("container" if isinstance(v, (list, tuple, dict, np.ndarray)) else "python-scalar")
                if not same:
                    out.violation({"kind": "option-not-forwarded-verbatim", "passed_kind": pk}, {**cj, "adapter": kind, "option": k, "passed": repr(v), "passed_type": type(v).__name__, "received": repr(got), "received_type": type(got).__name__},
                                  f"adapted {fn.__name__}: option {k}={v!r} ({type(v).__name__}) arrived as {got!r} ({type(got).__name__})")
                else:
                    out.count("options_verbatim")
            # (argument shape discipline)
            if kind == "reduce":
                leaves = list(xleaves(case.xin[0]))
                nb = len([l for l in leaves if l.bracket])
                if not (isinstance(axis, tuple) and all(isinstance(a, (int, np.integer)) for a in axis)) and not isinstance(axis, (int, np.integer)):
                    out.violation({"kind": "reduce-axis-argument-type"}, {**cj, "axis": repr(axis)}, f"axis argument is {axis!r}")
                else:
                    ax = (int(axis),) if isinstance(axis, (int, np.integer)) else tuple(int(a) for a in axis)
                    bs = [case.sizes[l.name] for l in leaves if l.bracket]
                    got_bs = [shapes[a] for a in ax] if all(0 <= a < len(shapes) for a in ax) else None
                    vec_names = []
                    for l in leaves:
                        if not l.bracket and l.name not in vec_names:
                            vec_names.append(l.name)
                    vec_total = int(np.prod([case.sizes[n] for n in vec_names])) if vec_names else 1
                    rest = int(np.prod([s for i, s in enumerate(shapes) if i not in ax])) if len(shapes) else 1
                    # (adjacent bracketed axes may reach the function merged into one axis: compare products)
                    if len(ax) > nb or got_bs is None or int(np.prod(got_bs or [1])) != int(np.prod(bs or [1])) or rest != vec_total:
                        out.violation({"kind": "reduce-adapter-arguments"}, {**cj, "received_shape": list(shapes), "axis": list(ax), "bracketed_sizes": bs},
                                      f"adapted reduce {fn.__name__}({desc!r}): function received shape {shapes} axis {ax}; bracketed sizes {bs}, vectorised total {vec_total}")
                    else:
                        out.count("reduce_arguments_ok")
            else:
                ranks = {len(s) for s in shapes}
                ok = len(ranks) == 1
                if ok:
                    try:
                        np.broadcast_shapes(*shapes)
                    except ValueError:
                        ok = False
                if not ok:
                    out.violation({"kind": "elementwise-adapter-arguments"}, {**cj, "received_shapes": [list(s) for s in shapes]}, f"adapted elementwise {fn.__name__}({desc!r}): function received shapes {shapes}")
                else:
                    out.count("elementwise_arguments_ok")
            # value: loop reference with the same Python function
            calls_backup = list(calls)
            try:
                if kind == "reduce":
                    exp = R.ref_adapt_reduce(lambda s, axis, **k: fn(s, axis, **k), case.xin, case.xout, case.tensors, case.sizes, **opts)
                else:
                    exp = R.ref_adapt_elementwise(lambda *xs, **k: fn(*xs, **k), case.xin, case.xout, case.tensors, case.sizes, **opts)
            except Exception as e:
                out.count("reference_failed")
                continue
            if any(isinstance(v, (np.generic, np.ndarray, list, dict)) for v in opts.values()):
                out.count("value_check_skipped_numpy_scalar_option")  # already reported by the verbatim monitor (KF-NUMPY-SCALAR-OPTION-AS-LITERAL)
                continue
            d = X.compare(exp, r[1], inexact=True)
            if d is not None:
                out.violation({"kind": "adapted-" + d[0], "adapter": kind, "risk": G.risk(case)}, {**cj, "detail": d[1], "opts": {k: repr(v) for k, v in opts.items()}},
                              f"adapted {fn.__name__}({desc!r}, shapes={case.in_shapes}, {opts}): {d[1]}")
            else:
                out.count("agree")
        # option name used as an axis name -> SemanticError
        if optnames and rng.random() < 0.3:
            bad = optnames[0]
            names = [n for n in case.var_sizes if n in desc.split() or f" {n} " in f" {desc} "]
            if names:
                victim = names[0]
                import re
                d2 = re.sub(rf"(?<![A-Za-z0-9_]){re.escape(victim)}(?![A-Za-z0-9_])", bad, desc)
                kw2 = {(bad if k == victim else k): v for k, v in case.kwargs.items() if k != victim}
                out.evaluation()
                try:
                    ein(d2, *[np.array(t, copy=True) for t in case.tensors], **kw2)
                    out.violation({"kind": "option-name-as-axis-accepted"}, {**cj, "desc2": d2}, f"adapted {fn.__name__}({d2!r}) accepted an axis named like its keyword-only option {bad!r}")
                except einx.errors.SemanticError:
                    out.count("option_name_axis_rejected")
                except Exception as e:
                    out.violation({"kind": "option-name-as-axis-wrong-exception", "exc": type(e).__name__}, {**cj, "desc2": d2, "message": str(e)[:200]}, f"adapted {fn.__name__}({d2!r}): {type(e).__name__} instead of SemanticError")
        # misbehaving functions
        if rng.random() < 0.5:
            expect_shape = tuple(case.out_shapes[0])
            for label in ("list", "none", "wrong-rank", "wrong-shape", "tuple"):
                def bad_fn(*xs, axis=None, _label=label, **k):
                    base = np.zeros(expect_shape)
                    if _label == "list":
                        return base.tolist() if base.ndim else [0.0]
                    if _label == "none":
                        return None
                    if _label == "wrong-rank":
                        return np.zeros(expect_shape + (1,))
                    if _label == "wrong-shape":
                        return np.zeros(tuple(s + 1 for s in expect_shape) if expect_shape else (2,))
                    return (base, base)
                if kind == "reduce":
                    f2 = lambda x, axis, _b=bad_fn: _b(x, axis=axis)
                    ein2 = einx.numpy.adapt_numpylike_reduce(f2)
                else:
                    f2 = lambda *xs, _b=bad_fn: _b(*xs)
                    ein2 = einx.numpy.adapt_numpylike_elementwise(f2)
                out.evaluation()
                try:
                    ein2(desc, *[np.array(t, copy=True) for t in case.tensors], **case.kwargs)
                    out.violation({"kind": "misbehaving-function-accepted", "bad": label, "adapter": kind}, cj, f"adapted function returning {label} was accepted for {desc!r} (expected output shape of the function differs)")
                except Exception:
                    out.count(f"misbehaving_rejected:{label}")


def finalize(agg, tier, seed):
    c = agg.counters
    for k in ("agree", "options_verbatim", "reduce_arguments_ok", "elementwise_arguments_ok", "misbehaving_rejected:wrong-shape", "option_name_axis_rejected"):
        if c.get(k, 0) < 20:
            agg.inconclusive.append(f"monitor counter {k} = {c.get(k, 0)}")
    return {}
