"""C05 - graph optimisation never changes what an operation computes, and terminates.

Oracle: the IR interpreter I on the graph before and after tracer.optimize, same inputs.
Workload 1: every graph captured at tracer.optimize while G's cases run on the real einx.
Workload 2: enumerated chains built with the numpy classical signature and the numpy backend's own
pattern list: every ordered pair of permutations (transpose o transpose), all pairs of compatible
shapes (reshape o reshape), random mixes with broadcast/concatenate/identity members, shared
intermediates (second consumer), trivial wrapper graphs.
"""
import itertools
import math
import random

import numpy as np

ID = "C05"
LEVEL = "exploration"
RULE = (
    "captured: pre/post optimisation graphs of G's cases (all families, numpy backends); enumerated: all ordered pairs of permutations up to rank 4 (quick) / 5 (thorough) as "
    "transpose chains with and without a second consumer of the intermediate and with distinct and equal axis lengths, all ordered pairs of factorisations of 12/16/24 as reshape chains, "
    "random mixes (length <= 5) of transpose/reshape/broadcast_to/concatenate/indexing with full, reversed and integer keys incl. no-op members, wrapper graphs for InlineGraph (every argument sequence of length 1-3 over 1-3 graph inputs x 7 non-commutative functions x {plain, keyword, literal argument}); distinct by (chain description); non-trivial if the "
    "optimiser changed the graph"
)
ASSUMPTIONS = ["the IR interpreter I defines what a graph computes", "inputs with distinct values; both all-distinct and all-equal axis lengths are used so that permutation mistakes show in shapes or in values"]
TIMEOUT = {"quick": 900, "thorough": 7200}


def shards(tier, seed, scale):
    n = 16
    return [{"n": int((100 if tier == "quick" else 1500) * scale), "maxrank": 4 if tier == "quick" else 5, "nmix": int((300 if tier == "quick" else 6000) * scale), "part": i, "parts": n, "maxlen": 4} for i in range(n)]


def count_nodes(g):
    import einx._src.tracer as tracer
    seen = set()

    def rec(x):
        if isinstance(x, (list, tuple)):
            for i in x:
                rec(i)
        elif isinstance(x, dict):
            for i in list(x.values()):
                rec(i)
        elif isinstance(x, tracer.Graph):
            rec(x.output)
        elif isinstance(x, tracer.Tracer):
            if id(x) in seen:
                return
            seen.add(id(x))
            if x.origin is not None:
                for i in x.origin.inputs:
                    rec(i)

    rec(g)
    return len(seen)


def compare_graphs(pre, post, make_inputs, out, label, witness, passes=None, optimizations=None):
    """I(pre) vs I(post) on identical fresh inputs: outcome, values, shapes, argument effects."""
    import einx._src.tracer as tracer
    from ..ref.graph import Interp
    from ..capture import same_value

    out.evaluation()
    if not isinstance(pre, tracer.Graph):
        out.count("pre_not_graph")
        return
    a1, a2 = make_inputs(), make_inputs()
    try:
        r1 = ("ok", Interp(pre)(*a1))
    except NotImplementedError:
        out.count("interpreter_unsupported")
        return
    except Exception as e:
        r1 = ("exc", type(e).__name__)
    post_callable = Interp(post) if isinstance(post, tracer.Graph) else None
    try:
        if post_callable is not None:
            r2 = ("ok", post_callable(*a2))
        else:
            # root graph inlined to a bare callable value: evaluate it and call it
            f = Interp(tracer.Graph([], post)).__call__()
            r2 = ("ok", f(*a2))
            out.count("post_is_bare_callable")
    except Exception as e:
        r2 = ("exc", type(e).__name__)
    if r1[0] != r2[0] or (r1[0] == "exc" and r1[1] != r2[1]):
        out.violation({"kind": "optimised-outcome-differs", "label": label, "pre": r1[1] if r1[0] == "exc" else "ok", "post": r2[1] if r2[0] == "exc" else "ok"}, witness, f"{label}: before optimisation -> {r1[0]}, after -> {r2[0]} ({witness})")
        return
    if r1[0] == "ok":
        if not same_value(r1[1], r2[1]):
            s1 = getattr(np.asarray(r1[1]) if not isinstance(r1[1], (tuple, list, dict)) else None, "shape", None)
            s2 = getattr(np.asarray(r2[1]) if not isinstance(r2[1], (tuple, list, dict)) else None, "shape", None)
            out.violation({"kind": "optimised-value-differs", "label": label, "shape_differs": s1 != s2}, witness, f"{label}: optimised graph computes something else ({witness}); shapes {s1} vs {s2}")
            return
        for i, (u, v) in enumerate(zip(a1, a2)):
            if isinstance(u, np.ndarray) and not np.array_equal(u, v, equal_nan=True):
                out.violation({"kind": "optimised-side-effect-differs", "label": label}, witness, f"{label}: argument {i} differs after the call")
                return
    out.count("pre_equals_post")
    out.count(f"pre_equals_post:{label}")
    changed = (count_nodes(pre) != count_nodes(post)) if isinstance(post, tracer.Graph) else True
    if changed:
        out.count("optimiser_changed_graph")
    if passes is not None:
        n = count_nodes(pre)
        if passes > n + 2:
            out.violation({"kind": "too-many-passes", "label": label}, {**witness, "passes": passes, "nodes": n}, f"{label}: {passes} optimiser passes for {n} nodes")
        out.count("passes_total", passes)
    # fixed point: optimising the result again must not change it
    if optimizations is not None and isinstance(post, tracer.Graph):
        import einx._src.tracer.optimizer.optimizer as optmod
        o = optmod.Optimizer(optimizations)
        again = o._optimize(post)
        if o.changed:
            out.violation({"kind": "not-a-fixed-point", "label": label}, witness, f"{label}: re-optimising the optimised graph still changes it")
        else:
            out.count("fixed_point")
    return changed


def run(spec, out):
    import einx
    import einx._src.tracer as tracer
    from einx._src.frontend.impl.numpy import _get_backend_kwargs
    from ..gen import cases as G
    from .. import hooks
    from ..capture import capture, fresh_args

    rng = random.Random(spec["seed"])
    nprng = np.random.default_rng(spec["seed"])
    hooks.install()
    opts = _get_backend_kwargs()["optimizations"]
    # ---- workload 1: captured graphs
    fams = G.FAMILIES + ["update"]
    for i in range(spec["n"]):
        case = G.generate(rng, nprng, family=rng.choice(fams), P={"maxlen": spec["maxlen"]})
        b = rng.choice([None, "numpy.numpylike", "numpy.einsum"])
        status, val, rec, _ = capture(case, b)
        if rec is None or rec.pre is None:
            out.count("no_record")
            continue
        wit = {"case": case.to_json(), "backend": b}
        ch = compare_graphs(rec.pre, rec.post, lambda: fresh_args(case), out, "captured", wit, passes=rec.passes, optimizations=opts)
        if ch:
            out.distinct_key(f"captured|{case.op}|{case.skeleton()}")
        if i < 1:
            out.sample({"captured": case.to_json(), "passes": rec.passes, "nodes_pre": count_nodes(rec.pre), "nodes_post": count_nodes(rec.post)})
    # ---- workload 2: enumerated chains
    npsig = tracer.signature.numpy()
    T = tracer.signature.classical.Tensor

    def data(shape):
        return np.arange(1, math.prod(shape) + 1, dtype=np.float64).reshape(shape)

    def chain_graph(shape, steps, share=False):
        x = T(None, shape)
        cur = x
        mids = []
        for st in steps:
            if st[0] == "transpose":
                cur = npsig.transpose(cur, st[1])
            elif st[0] == "reshape":
                cur = npsig.reshape(cur, st[1])
            elif st[0] == "broadcast":
                cur = npsig.broadcast_to(cur, st[1])
            elif st[0] == "concat1":
                cur = npsig.concatenate([cur], axis=st[1])
            elif st[0] == "concat2":
                cur = npsig.concatenate([cur, cur], axis=st[1])
            elif st[0] == "getitem":
                cur = npsig.ndarray.__getitem__(cur, st[1])
            elif st[0] == "cast":
                cur = tracer.cast(cur, lambda origin, s=tuple(cur.shape): T(origin, s))
            mids.append(cur)
        output = (cur, mids[0]) if share and len(mids) > 1 else cur
        return tracer.Graph([x], output, name="op")

    def run_chain(shape, steps, share, label):
        try:
            g = chain_graph(shape, steps, share)
        except Exception as e:
            out.count("chain_build_failed")
            return
        passes = [0]
        import einx._src.tracer.optimizer.optimizer as optmod
        g2 = tracer.optimize(g, opts)
        wit = {"shape": list(shape), "steps": [[s[0], [repr(k) for k in s[1]] if s[0] == "getitem" else (list(s[1]) if isinstance(s[1], (tuple, list)) else s[1])] for s in steps], "share": share}
        ch = compare_graphs(g, g2, lambda: [data(shape)], out, label, wit, optimizations=opts)
        if ch:
            out.distinct_key(f"{label}|{shape}|{steps}|{share}")

    # all ordered pairs of permutations
    k = 0
    for rank in range(1, spec["maxrank"] + 1):
        perms = list(itertools.permutations(range(rank)))
        for p1 in perms:
            for p2 in perms:
                k += 1
                if k % spec["parts"] != spec["part"]:
                    continue
                for shape in (tuple(range(2, 2 + rank)), (2,) * rank):
                    for share in (False, True):
                        run_chain(shape, [("transpose", p1), ("transpose", p2)], share, "transpose-pair")
    out.count("transpose_pairs_enumerated", k)
    # reshape pairs
    def factorizations(n, maxlen=3):
        res = []

        def rec(rem, acc):
            if len(acc) <= maxlen and rem == 1 and acc:
                res.append(tuple(acc))
            if len(acc) >= maxlen:
                return
            for d in range(1, rem + 1):
                if rem % d == 0 and (d > 1 or len(acc) < 2):
                    rec(rem // d, acc + [d])

        rec(n, [])
        return sorted(set(res))

    k = 0
    for n in (12, 16, 24):
        fs = factorizations(n)
        for s0 in fs[:: max(1, len(fs) // 6)]:
            for s1 in fs:
                for s2 in fs:
                    k += 1
                    if k % spec["parts"] != spec["part"]:
                        continue
                    run_chain(s0, [("reshape", s1), ("reshape", s2)], rng.random() < 0.3, "reshape-pair")
    out.count("reshape_pairs_enumerated", k)
    # random mixes
    for i in range(spec["nmix"]):
        rank = rng.randint(1, 4)
        shape = tuple(rng.choice([1, 2, 2, 3]) for _ in range(rank))
        cur = shape
        steps = []
        for _ in range(rng.randint(1, 5)):
            r = rng.random()
            if r < 0.3:
                p = list(range(len(cur)))
                if rng.random() < 0.75:
                    rng.shuffle(p)
                steps.append(("transpose", tuple(p)))
                cur = tuple(cur[i] for i in p)
            elif r < 0.6:
                n = math.prod(cur)
                fs = factorizations(n) if n > 1 else [(1,), (1, 1)]
                s = rng.choice(fs + [cur])
                steps.append(("reshape", tuple(s)))
                cur = tuple(s)
            elif r < 0.75:
                extra = tuple(rng.choice([1, 2]) for _ in range(rng.randint(0, 2)))
                s = extra + tuple(c if c != 1 else rng.choice([1, 2, 3]) for c in cur)
                steps.append(("broadcast", s))
                cur = s
            elif r < 0.80 and len(cur) > 0:
                # indexing with full / reversed slices and integers (what flip-by-indexing and get_at emit)
                key = tuple(rng.choice([slice(None), slice(None), slice(None, None, -1), slice(None, None, -1), rng.randrange(c)]) for c in cur)
                steps.append(("getitem", key))
                cur = tuple(c for c, k_ in zip(cur, key) if isinstance(k_, slice))
                out.count("mix_getitem_steps")
                if any(isinstance(k_, slice) and k_.step == -1 for k_ in key):
                    out.count("mix_reversed_slices")
            elif r < 0.85 and len(cur) > 0:
                ax = rng.randrange(len(cur))
                steps.append(("concat1", ax))
            elif r < 0.93 and len(cur) > 0:
                ax = rng.randrange(len(cur))
                steps.append(("concat2", ax))
                cur = tuple(c * 2 if i == ax else c for i, c in enumerate(cur))
            else:
                steps.append(("cast", None))
        run_chain(shape, steps, rng.random() < 0.3, "mix")
    # wrapper graphs (InlineGraph), enumerated: op(i0..ik) = f(args) for every argument sequence of length 1-3 over 1-3 graph inputs
    # (in order, permuted, repeated, subsets), non-commutative f, with / without keyword and constant arguments
    P = tracer.signature.python
    npmod = P.import_("numpy", as_="np")
    FUNCS = [("subtract", lambda: npmod.subtract, 2), ("divide", lambda: npmod.divide, 2), ("where", lambda: npmod.where, 3), ("negative", lambda: npmod.negative, 1),
             ("const2", lambda: P.constant(lambda a, b: a * 2 + b), 2), ("const3", lambda: P.constant(lambda a, b, c: a * 4 + b * 2 + c), 3), ("const1", lambda: P.constant(lambda a: a + 1), 1)]
    k = 0
    for nin in (1, 2, 3):
        for fname, mk, arity in FUNCS:
            for argidx in itertools.product(range(nin), repeat=arity):
                for extra in ("none", "kwarg", "literal", "assert-pass", "assert-fail"):
                    k += 1
                    if k % spec["parts"] != spec["part"]:
                        continue
                    if extra in ("kwarg", "literal") and fname not in ("subtract", "const2"):
                        continue
                    xs = [T(None, (2, 3)) for _ in range(nin)]
                    args = [xs[j] for j in argidx]
                    kwargs = {}
                    if extra == "kwarg" and fname == "subtract":
                        kwargs = {"dtype": "float64"}
                    elif extra == "kwarg":
                        continue
                    if extra == "literal":
                        args = args[:-1] + [3.0]
                    try:
                        res = P.call(mk(), args, kwargs)
                        if extra.startswith("assert"):
                            # the run-time checks einx puts on values returned by user functions: they must survive optimisation
                            res = P.assert_(res, P.equal(P.call(P.builtins.len, [res]), 2 if extra == "assert-pass" else 5), "length")
                            out.count("wrapper_with_assert")
                        g = tracer.Graph(xs, res, name="op")
                        g2 = tracer.optimize(g, opts)
                    except Exception:  # noqa
                        out.count("wrapper_build_failed")
                        continue
                    wit = {"function": fname, "graph_inputs": nin, "call_arguments": list(argidx), "extra": extra}
                    ch = compare_graphs(g, g2, lambda nin=nin: [data((2, 3)) * (j + 1) + j for j in range(nin)], out, "wrapper", wit, optimizations=opts)
                    out.count("wrapper_inlined" if ch else "wrapper_kept")
                    out.distinct_key(f"wrapper|{fname}|{nin}|{argidx}|{extra}")
    # wrappers whose scalar argument is unsqueezed to (1, .., 1) first: reshaping turns a Python number into an array (strong dtype), so the
    # wrapper is NOT the bare function; inputs with narrow dtypes make the difference visible in the values
    for fname in ("add", "multiply", "subtract", "maximum"):
        for pos in (0, 1):
            for arr, sc in ((np.array([[200, 100, 50], [1, 2, 3]], dtype=np.uint8), 100), (np.array([[100, -100, 5], [1, 2, 3]], dtype=np.int8), 3), (np.array([[0.1, 0.2, 0.3], [1, 2, 3]], dtype=np.float32), 0.1)):
                xa, xs_ = T(None, (2, 3)), T(None, ())
                r = npsig.reshape(xs_, (1, 1))
                args = [xa, r] if pos == 1 else [r, xa]
                try:
                    g = tracer.Graph([xa, xs_] if pos == 1 else [xs_, xa], P.call(getattr(npmod, fname), args), name="op")
                    g2 = tracer.optimize(g, opts)
                except Exception:  # noqa
                    out.count("wrapper_build_failed")
                    continue
                mk_in = (lambda arr=arr, sc=sc, pos=pos: [arr.copy(), sc] if pos == 1 else [sc, arr.copy()])
                compare_graphs(g, g2, mk_in, out, "wrapper-unsqueezed-scalar", {"function": fname, "scalar_position": pos, "dtype": str(arr.dtype), "scalar": sc}, optimizations=opts)
                out.distinct_key(f"wrapper-unsq|{fname}|{pos}|{arr.dtype}")
    for dep in (False, True):
        x = T(None, (2, 3))
        f = tracer.signature.python.import_("numpy", as_="np").negative if not dep else tracer.signature.python.call(tracer.signature.python.constant(lambda t: (lambda u: u * t.shape[0])), [x])
        g = tracer.Graph([x], tracer.signature.python.call(f, [x]), name="op")
        g2 = tracer.optimize(g, opts)
        compare_graphs(g, g2, lambda: [data((2, 3))], out, "wrapper", {"depends_on_inputs": dep}, optimizations=opts)


def finalize(agg, tier, seed):
    c = agg.counters
    for k in ("pre_equals_post:captured", "pre_equals_post:transpose-pair", "pre_equals_post:reshape-pair", "pre_equals_post:mix", "optimiser_changed_graph", "fixed_point", "pre_equals_post:wrapper", "wrapper_inlined", "wrapper_kept", "wrapper_with_assert", "mix_reversed_slices", "pre_equals_post:wrapper-unsqueezed-scalar"):
        if c.get(k, 0) < (50 if "wrapper_" not in k else 5):
            agg.inconclusive.append(f"monitor counter {k} = {c.get(k, 0)}")
    maxrank = 4 if tier == "quick" else 5
    exp = sum(math.factorial(r) ** 2 for r in range(1, maxrank + 1)) * 16
    return {"transpose_pairs": int(c.get("transpose_pairs_enumerated", 0) // 16), "exhaustive": False}
