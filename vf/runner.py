"""Parent side: shards a check over worker subprocesses, aggregates what the monitors
observed, matches violations against known findings, writes evidence, sets the exit code.

Exit codes: 0 held on everything observed; 1 at least one unlisted violation (prints
VIOLATION lines); 2 inconclusive (worker died / timed out / deciding monitor saw nothing).
"""

import argparse
import collections
import concurrent.futures
import hashlib
import importlib
import json
import os
import subprocess
import sys
import time

from . import VERIF_DIR, PYTHON, repo_dir
from . import findings as findings_mod

MARK = "@@VF "


def _load_check(pid):
    return importlib.import_module(f"vf.checks.{pid.lower()}")


def _run_worker(pid, spec, timeout, hashseed):
    env = dict(os.environ)
    env["PYTHONHASHSEED"] = str(spec.get("hashseed", hashseed))
    env["PYTHONDONTWRITEBYTECODE"] = "1"
    env["PYTHONPATH"] = VERIF_DIR + os.pathsep + repo_dir()
    env["EINX_VERIF_REPO"] = repo_dir()
    env.setdefault("OMP_NUM_THREADS", "1")
    env.setdefault("OPENBLAS_NUM_THREADS", "1")
    env.setdefault("MKL_NUM_THREADS", "1")
    env.pop("EINX_VERIF", None)
    for k, v in spec.get("env", {}).items():
        env[k] = str(v)
    cmd = [PYTHON, "-X", "faulthandler", "-m", "vf.worker", pid, json.dumps(spec)]
    t0 = time.time()
    try:
        p = subprocess.run(cmd, cwd=VERIF_DIR, env=env, capture_output=True, timeout=timeout, text=True, errors="replace")
        return {"spec": spec, "rc": p.returncode, "stdout": p.stdout, "stderr": p.stderr[-4000:], "wall": time.time() - t0, "timeout": False}
    except subprocess.TimeoutExpired as e:
        out = e.stdout if isinstance(e.stdout, str) else (e.stdout or b"").decode("utf8", "replace")
        err = e.stderr if isinstance(e.stderr, str) else (e.stderr or b"").decode("utf8", "replace")
        return {"spec": spec, "rc": None, "stdout": out, "stderr": err[-4000:], "wall": time.time() - t0, "timeout": True}


class Aggregate:
    def __init__(self):
        self.counters = collections.Counter()
        self.distinct = set()
        self.samples = []
        self.violations = []
        self.inconclusive = []
        self.info = collections.defaultdict(list)
        self.sets = collections.defaultdict(set)

    def feed(self, ev):
        t = ev.get("t")
        if t == "counters":
            self.counters.update(ev["c"])
        elif t == "distinct":
            self.distinct.update(ev["keys"])
        elif t == "sets":
            for k, v in ev["s"].items():
                self.sets[k].update(v)
        elif t == "sample":
            if len(self.samples) < 40:
                self.samples.append(ev["s"])
        elif t == "violation":
            self.violations.append(ev)
        elif t == "inconclusive":
            self.inconclusive.append(ev["reason"])
        elif t == "info":
            self.info[ev["k"]].append(ev["v"])


def main(argv=None):
    ap = argparse.ArgumentParser()
    ap.add_argument("pid")
    ap.add_argument("--tier", default=os.environ.get("VERIF_TIER") or "quick", choices=["quick", "thorough"])
    ap.add_argument("--seed", type=int, default=None)
    ap.add_argument("--workers", type=int, default=int(os.environ.get("VERIF_WORKERS", "16")))
    ap.add_argument("--scale", type=float, default=float(os.environ.get("VERIF_SCALE", "1.0")))
    args = ap.parse_args(argv)
    pid = args.pid.upper()
    tier = args.tier
    seed = args.seed if args.seed is not None else int(os.environ.get("VERIF_SEED", "0") or 0)
    t0 = time.time()

    check = _load_check(pid)
    specs = check.shards(tier, seed, args.scale)
    for i, s in enumerate(specs):
        s.setdefault("shard", i)
        s.setdefault("seed", seed * 1000003 + i * 7919 + 1)
        s.setdefault("tier", tier)
    timeout = getattr(check, "TIMEOUT", {"quick": 600, "thorough": 7200})[tier]
    hashseed = getattr(check, "HASHSEED", 0)
    if hashseed == "varied":
        hashseed = 0

    agg = Aggregate()
    shard_walls = []
    nworkers = min(args.workers, getattr(check, "WORKERS", args.workers))
    with concurrent.futures.ThreadPoolExecutor(max_workers=nworkers) as ex:
        futs = [ex.submit(_run_worker, pid, s, timeout, hashseed) for s in specs]
        for f in concurrent.futures.as_completed(futs):
            r = f.result()
            shard_walls.append(round(r["wall"], 2))
            done = False
            for line in r["stdout"].splitlines():
                if line.startswith(MARK):
                    try:
                        ev = json.loads(line[len(MARK):])
                    except Exception:
                        continue
                    if ev.get("t") == "done":
                        done = True
                    else:
                        agg.feed(ev)
            if r["timeout"]:
                agg.inconclusive.append(f"shard {r['spec']['shard']} watchdog fired after {timeout}s")
            elif r["rc"] != 0 or not done:
                tail = r["stderr"].strip().splitlines()[-12:]
                agg.inconclusive.append(f"shard {r['spec']['shard']} worker exited rc={r['rc']} done={done}: " + " | ".join(tail))

    # check-specific post-processing over all shards (cross-process oracles, coverage minima)
    extra_cov = {}
    if hasattr(check, "finalize"):
        extra_cov = check.finalize(agg, tier, seed) or {}

    # classify violations
    kf = findings_mod.load()
    unlisted = []
    known_hits = collections.Counter()
    known_example = {}
    for v in agg.violations:
        fid = findings_mod.match(kf, pid, v.get("mech", {}))
        if fid is None:
            unlisted.append(v)
        else:
            known_hits[fid] += 1
            known_example.setdefault(fid, v)

    for fid, n in sorted(known_hits.items()):
        entry = findings_mod.by_id(kf, fid)
        print(f"KNOWN-FINDING: property={pid} {fid}: {entry['what']} (seen {n}x; e.g. {findings_mod.short(known_example[fid])})")

    replay_paths = []
    seen_mech = set()
    out_dir = os.environ.get("VERIF_OUT") or VERIF_DIR  # VERIF_OUT: evaluation of seeded changes writes elsewhere; evidence in /verif always describes /repo
    rdir = os.path.join(out_dir, "replays", pid)
    os.makedirs(rdir, exist_ok=True)
    for fn in os.listdir(rdir):  # replays belong to one run
        try:
            os.unlink(os.path.join(rdir, fn))
        except OSError:
            pass
    for v in unlisted:
        blob = json.dumps({"property": pid, "tier": tier, "seed": seed, **{k: v[k] for k in v if k != "t"}}, sort_keys=True, default=str)
        h = hashlib.sha1(blob.encode()).hexdigest()[:16]
        path = os.path.join(out_dir, "replays", pid, h + ".json")
        mkey = json.dumps(v.get("mech", {}), sort_keys=True, default=str)
        if len(replay_paths) < 200:
            with open(path, "w") as f:
                f.write(blob)
            replay_paths.append(path)
        if mkey not in seen_mech or len(seen_mech) < 25:
            print(f"VIOLATION property={pid} replay={path}")
            print(f"  mech={mkey} :: {findings_mod.short(v)}")
        seen_mech.add(mkey)

    coverage = {
        "evaluations": int(agg.counters.get("evaluations", 0)),
        "distinct_nontrivial": len(agg.distinct),
        "rule": getattr(check, "RULE", ""),
        "samples": agg.samples[:12] if agg.samples else [],
        "counters": {k: int(v) for k, v in sorted(agg.counters.items())},
        "known_findings_hit": dict(known_hits),
        "unlisted_violations": len(unlisted),
        "unlisted_mechanisms": sorted(seen_mech)[:50],
        "inconclusive": agg.inconclusive[:20],
        "shards": len(specs),
        "shard_wall_s": sorted(shard_walls),
        "hashseed": hashseed,
        "repo": repo_dir(),
    }
    for k, v in agg.sets.items():
        coverage[f"distinct_{k}"] = len(v)
    coverage.update(extra_cov)
    if coverage["evaluations"] < 1 or coverage["distinct_nontrivial"] < 2 or not coverage["samples"]:
        agg.inconclusive.append("monitors observed too little (evaluations/distinct/samples below schema minimum)")

    evidence = {
        "property_id": pid,
        "tier": tier,
        "seed": seed,
        "level": getattr(check, "LEVEL", "exploration"),
        "coverage": coverage,
        "assumptions": getattr(check, "ASSUMPTIONS", []),
        "wall_s": round(time.time() - t0, 2),
        "violations": len(unlisted),
    }
    os.makedirs(os.path.join(out_dir, "evidence"), exist_ok=True)
    with open(os.path.join(out_dir, "evidence", f"{pid}.json"), "w") as f:
        json.dump(evidence, f, indent=1, default=str)
        f.write("\n")

    verdict = "violated" if unlisted else ("inconclusive" if agg.inconclusive else "held-on-observed")
    print(
        f"[{pid}] tier={tier} seed={seed} evaluations={coverage['evaluations']} distinct={coverage['distinct_nontrivial']} "
        f"known={sum(known_hits.values())} unlisted={len(unlisted)} verdict={verdict} wall={evidence['wall_s']}s"
    )
    if unlisted:
        return 1
    if agg.inconclusive:
        for r in agg.inconclusive[:10]:
            print(f"INCONCLUSIVE property={pid} reason={r}")
        return 2
    return 0


if __name__ == "__main__":
    sys.exit(main())
