"""T - controlled thread scheduler on top of sys.monitoring (Python 3.12).

Managed threads run one at a time. Every LINE event in einx's shared-state files and every
PY_START event in the rest of einx is a yield point at which the scheduler may hand the token to
another managed thread (pre-drawn preemption indices, PCT style, or random with a probability).
einx's own locks are replaced by a cooperative shim whose acquire() yields instead of blocking.
"""

import collections
import os
import random
import sys
import threading
import types

TOOL = 3
LINE_FILES = ("frontend/backend.py", "frontend/api.py", "util/lru_cache.py", "tracer/graph.py", "torch/devicestack.py", "arrayapi/namespacestack.py",
              "tracer/compiler/python/__init__.py")  # (the code generator exec()s and then looks up the generated function: a window without any einx call in it)

_real_Lock = threading.Lock
_real_RLock = threading.RLock
tls = threading.local()
current = None  # the active Sched


class Deadlock(Exception):
    pass


class Sched:
    def __init__(self, seed, tids, switch_points=None, switch_prob=0.0, first=None):
        self.rng = random.Random(seed)
        self.cv = threading.Condition(_real_Lock())
        self.alive = set(tids)
        self.current = first if first is not None else sorted(tids)[self.rng.randrange(len(tids))]
        self.count = 0
        self.switch_points = switch_points or set()
        self.switch_prob = switch_prob
        self.switches = []
        self.files = collections.Counter()
        self.spins = collections.Counter()
        self.deadlock = False
        self.trace = None  # set to [] to record the location of every yield point (measuring run)

    def _pick(self, exclude=None):
        c = sorted(t for t in self.alive if t != exclude)
        if not c:
            c = sorted(self.alive)
        return self.rng.choice(c) if c else None

    def yield_point(self, tid, loc, force=False):
        self.count += 1
        self.files[loc[0]] += 1
        if self.trace is not None:
            self.trace.append(loc)
        if not force:
            if self.count not in self.switch_points and not (self.switch_prob and self.rng.random() < self.switch_prob):
                return
        with self.cv:
            nxt = self._pick(exclude=tid)
            if nxt is None or nxt == tid:
                return
            self.switches.append((self.count, tid, nxt, loc[0], loc[1]))
            self.current = nxt
            self.cv.notify_all()
            while self.current != tid:
                self.cv.wait()

    def wait_turn(self, tid):
        with self.cv:
            while self.current != tid:
                self.cv.wait()

    def done(self, tid):
        with self.cv:
            self.alive.discard(tid)
            if self.current == tid or self.current not in self.alive:
                n = self._pick()
                if n is not None:
                    self.current = n
            self.cv.notify_all()

    def signature(self):
        return tuple((c, a, b) for c, a, b, _, _ in self.switches)


class CoopLock:
    """Same semantics as threading.Lock; for managed threads acquire() yields instead of blocking."""

    def __init__(self, reentrant=False):
        self._l = _real_RLock() if reentrant else _real_Lock()

    def acquire(self, blocking=True, timeout=-1):
        tid = getattr(tls, "tid", None)
        s = current
        if tid is None or s is None:
            return self._l.acquire(blocking, timeout)
        n = 0
        while not self._l.acquire(False):
            if not blocking:
                return False
            n += 1
            if n > 20000:
                s.deadlock = True
                raise Deadlock("managed thread could not acquire an einx lock after 20000 yields")
            s.yield_point(tid, ("lock", 0), force=True)
        return True

    def release(self):
        self._l.release()

    def locked(self):
        if self._l.acquire(False):
            self._l.release()
            return False
        return True

    def __enter__(self):
        self.acquire()
        return self

    def __exit__(self, *a):
        self.release()


def install_lock_shim():
    """Wrap threading.Lock/RLock so that locks created by einx modules are cooperative. Must run
    before einx is imported."""

    def _is_einx_frame():
        f = sys._getframe(2)
        mod = f.f_globals.get("__name__", "")
        return mod == "einx" or mod.startswith("einx.")

    def Lock():
        if _is_einx_frame():
            return CoopLock(False)
        return _real_Lock()

    def RLock():
        if _is_einx_frame():
            return CoopLock(True)
        return _real_RLock()

    threading.Lock = Lock
    threading.RLock = RLock


def uninstall_lock_shim():
    threading.Lock = _real_Lock
    threading.RLock = _real_RLock


def _on_line(code, line):
    tid = getattr(tls, "tid", None)
    s = current
    if tid is None or s is None:
        return
    s.yield_point(tid, (os.path.basename(code.co_filename), line))


def _on_start(code, off):
    tid = getattr(tls, "tid", None)
    s = current
    if tid is None or s is None:
        return
    s.yield_point(tid, (os.path.basename(code.co_filename), code.co_name))


def _codes_of(mod, einx_dir):
    seen = set()

    def rec(co):
        if co in seen:
            return
        seen.add(co)
        for c in co.co_consts:
            if isinstance(c, types.CodeType):
                rec(c)

    for v in list(vars(mod).values()):
        if isinstance(v, types.FunctionType) and v.__code__.co_filename.startswith(einx_dir):
            rec(v.__code__)
        elif isinstance(v, type):
            for w in list(vars(v).values()):
                f = getattr(w, "__func__", w)
                if isinstance(f, property):
                    f = f.fget
                if isinstance(f, types.FunctionType) and f.__code__.co_filename.startswith(einx_dir):
                    rec(f.__code__)
    return seen


def instrument():
    """Enable yield-point events on every function of every loaded einx module. -> (n_line, n_start)"""
    import einx

    mon = sys.monitoring
    mon.use_tool_id(TOOL, "vf-sched")
    mon.register_callback(TOOL, mon.events.LINE, _on_line)
    mon.register_callback(TOOL, mon.events.PY_START, _on_start)
    einx_dir = os.path.dirname(os.path.abspath(einx.__file__))
    nline = nstart = 0
    for name, mod in list(sys.modules.items()):
        if (name == "einx" or name.startswith("einx.")) and getattr(mod, "__file__", None):
            for co in _codes_of(mod, einx_dir):
                if co.co_filename.replace(os.sep, "/").endswith(LINE_FILES):
                    mon.set_local_events(TOOL, co, mon.events.LINE)
                    nline += 1
                else:
                    mon.set_local_events(TOOL, co, mon.events.PY_START)
                    nstart += 1
    return nline, nstart


def run_threads(sched, bodies, timeout=60):
    """bodies: {tid: callable}. Runs them under `sched`. -> list of tids still alive (hung)."""
    global current
    current = sched
    threads = {}

    def wrap(tid, fn):
        def body():
            tls.tid = tid
            sched.wait_turn(tid)
            try:
                fn()
            finally:
                tls.tid = None
                sched.done(tid)

        return body

    for tid, fn in bodies.items():
        t = threading.Thread(target=wrap(tid, fn), daemon=True)
        threads[tid] = t
    for t in threads.values():
        t.start()
    for t in threads.values():
        t.join(timeout)
    hung = [tid for tid, t in threads.items() if t.is_alive()]
    current = None
    return hung
