"""Worker side: python -m vf.worker <PID> <spec-json>. Streams JSON events on stdout."""
import collections
import importlib
import json
import os
import sys
import time
import traceback
import warnings

MARK = "@@VF "


class Emitter:
    """What a monitor uses to report what it observed. Counters/distinct keys are batched."""

    def __init__(self, stream=None, spec=None):
        self.stream = stream or sys.stdout
        self.spec = spec
        self.counters = collections.Counter()
        self.distinct = set()
        self.sets = collections.defaultdict(set)
        self.nsamples = 0
        self.nviol = collections.Counter()

    def _w(self, ev):
        self.stream.write(MARK + json.dumps(ev, default=_default) + "\n")

    def count(self, key, n=1):
        self.counters[key] += n

    def evaluation(self, n=1):
        self.counters["evaluations"] += n

    def distinct_key(self, key):
        self.distinct.add(key if isinstance(key, str) else json.dumps(key, sort_keys=True, default=_default))

    def set_add(self, name, key):
        self.sets[name].add(key if isinstance(key, str) else json.dumps(key, sort_keys=True, default=_default))

    def sample(self, s, limit=3):
        if self.nsamples < limit:
            self.nsamples += 1
            self._w({"t": "sample", "s": s})

    def violation(self, mech, witness, desc=""):
        key = json.dumps(mech, sort_keys=True, default=_default)
        self.nviol[key] += 1
        self.counters["violations_raw"] += 1
        if self.nviol[key] <= 6:  # keep a few witnesses per mechanism per shard
            self._w({"t": "violation", "mech": mech, "witness": witness, "desc": desc, "shard_spec": self.spec})
        else:
            self._w({"t": "violation", "mech": mech, "witness": {"elided": True}, "desc": desc[:200], "shard_spec": self.spec})

    def inconclusive(self, reason):
        self._w({"t": "inconclusive", "reason": reason})

    def info(self, k, v):
        self._w({"t": "info", "k": k, "v": v})

    def flush(self):
        self._w({"t": "counters", "c": dict(self.counters)})
        self._w({"t": "distinct", "keys": sorted(self.distinct)})
        if self.sets:
            self._w({"t": "sets", "s": {k: sorted(v) for k, v in self.sets.items()}})
        self.counters.clear()
        self.distinct.clear()
        self.sets.clear()
        self.stream.flush()


def _default(o):
    try:
        import numpy as np

        if isinstance(o, np.ndarray):
            return o.tolist()
        if isinstance(o, np.generic):
            return o.item()
    except Exception:
        pass
    if isinstance(o, (set, frozenset)):
        return sorted(o, key=str)
    if isinstance(o, tuple):
        return list(o)
    return repr(o)


def setup_einx_path():
    repo = os.path.abspath(os.environ.get("EINX_VERIF_REPO", "/repo"))
    if repo in sys.path:
        sys.path.remove(repo)
    sys.path.insert(0, repo)
    return repo


def assert_einx_from_repo():
    import einx

    repo = os.path.abspath(os.environ.get("EINX_VERIF_REPO", "/repo"))
    f = os.path.abspath(einx.__file__)
    if not f.startswith(repo + os.sep):
        raise RuntimeError(f"einx imported from {f}, not from {repo}")
    return f


def main():
    pid = sys.argv[1]
    spec = json.loads(sys.argv[2])
    warnings.simplefilter("ignore")
    setup_einx_path()
    out = Emitter(spec=spec)
    check = importlib.import_module(f"vf.checks.{pid.lower()}")
    if getattr(check, "PRE_IMPORT", None):
        check.PRE_IMPORT(spec)
    try:
        assert_einx_from_repo()
        check.run(spec, out)
    except BaseException:
        out.flush()
        traceback.print_exc()
        sys.stderr.flush()
        sys.stdout.flush()
        os._exit(3)
    out.flush()
    out._w({"t": "done"})
    sys.stdout.flush()
    os._exit(0)


if __name__ == "__main__":
    main()
