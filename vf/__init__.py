"""Runtime-monitoring machinery for fferflo/einx (properties C01..C17).

Everything here runs under /venv/bin/python with the standard library and numpy only.
See /verif/DESIGN.md.
"""

import os

VERIF_DIR = os.path.dirname(os.path.dirname(os.path.abspath(__file__)))
PYTHON = "/venv/bin/python"


def repo_dir():
    return os.path.abspath(os.environ.get("EINX_VERIF_REPO", "/repo"))
